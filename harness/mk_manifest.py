#!/usr/bin/env python3
"""Write /verif/MANIFEST.json from the registry (one entry per claimed property)."""
import json, os, sys
sys.path.insert(0, os.path.dirname(os.path.abspath(__file__)))
import props_registry as pr

ALL = [f"C{i:02d}" for i in range(1, 20)]
TEXT = pr.LEVELS if hasattr(pr, "LEVELS") else {}
checks = []
for p in ALL:
    if p not in pr.REGISTRY:
        continue
    info = TEXT.get(p, {})
    checks.append({
        "property_id": p,
        "quick_cmd": f"./check {p} --tier quick",
        "thorough_cmd": f"./check {p} --tier thorough",
        "evidence_file": f"/verif/evidence/{p}.json",
        "replay_cmd_template": f"./check {p} --replay {{path}}",
        "engine": "coq-model+correspondence",
        "level_claimed": {"category": "proof", "text": info.get("text", "Theorems in coq/Props/%s.v over a Gallina model of the library, kernel-checked; model tied to /repo on every run by translators (class table, API surface, method skeletons and context managers regenerated from the source) and by a differential correspondence evaluated inside Coq." % p),
                          "design_ref": info.get("design_ref", "DESIGN.md §4 " + p)},
        "level_note": info.get("note", "Trusted: Coq 8.16.1 kernel, vm_compute; the hand-written model is the code only on the sampled correspondence inputs; fakes for Redis/MongoDB/Zarr; CPython container semantics; json codec."),
        "technique": info.get("technique", "Coq theorem over Gallina model + source translators (generated obligations) + differential correspondence (vm_compute) + oracle search on the implementation"),
    })
na = [{"property_id": p, "reason": pr.NOT_YET.get(p, "check not built yet in this round; planned (DESIGN.md §4)")} for p in ALL if p not in pr.REGISTRY]
m = {
    "version": 1,
    "setup_cmd": "./setup.sh",
    "hooks": {"guard": "SYNCED_COLLECTIONS_VERIF",
              "enable": "no source hooks are needed: the harness instruments from outside (class-method wrappers, RLock proxies, sys.settrace, strace); the variable is exported by ./check for completeness",
              "baseline_off_cmd": "cd /repo && /venv/bin/python -m pytest -ra -q -p no:cacheprovider --timeout=900 --continue-on-collection-errors",
              "source_commits": [], "add_only": True},
    "engines": [{"name": "coq-model+correspondence", "path": "/verif/coq", "serves_properties": [c["property_id"] for c in checks],
                 "kind_free_text": "Coq 8.16.1 development (Model/, Proofs/, Props/, Corr/, Gen/) + Python harness driving /repo and emitting case files evaluated by vm_compute"}],
    "checks": checks,
    "notes": "Machine-checked proof in Coq over an executable model; translators and correspondence checks tie the model to /repo on every run. See DESIGN.md.",
    "not_applicable": na,
}
with open(os.path.join(os.path.dirname(os.path.dirname(os.path.abspath(__file__))), "MANIFEST.json"), "w") as f:
    json.dump(m, f, indent=1)
print("claimed:", [c["property_id"] for c in checks], "not claimed:", [x["property_id"] for x in na])
