"""K3: deterministic thread scheduler over the real code (sys.settrace + lock proxies) with a
bounded-preemption stateless DFS; scenarios for C09, C10 (deadlock), C13, C14.

Each scenario runs in its own child process (a deadlocked execution leaves parked daemon threads
and held proxies behind).  Oracle: results and final content must equal those of SOME serial order
of the operations on plain built-in data; no thread may fail or stay blocked.
"""
import copy
import itertools
import json
import os
import subprocess
import sys
import tempfile
import threading

sys.path.insert(0, os.path.dirname(os.path.abspath(__file__)))
from common import *  # noqa
from gen import apply_lop, apply_dop


# ------------------------------------------------------------------------------------ scheduler
class Sched:
    cur = None

    def __init__(self, gran):
        self.sem = {}
        self.main = threading.Semaphore(0)
        self.state = {}
        self.waiting_on = {}
        self.trace = []
        self.results = {}
        self.gran = gran

    def park(self, name, label):
        self.trace.append((name, label))
        self.main.release()
        self.sem[name].acquire()

    def tracer(self, name):
        def t(frame, event, arg):
            fn = frame.f_code.co_filename
            if "synced_collections" not in fn:
                return None
            if event == "call":
                self.park(name, "call " + frame.f_code.co_name)
                return t if self.gran == "line" else None
            if event == "line" and self.gran == "line":
                self.park(name, f"line {os.path.basename(fn)}:{frame.f_lineno}")
            return t
        return t

    def spawn(self, name, fn):
        self.sem[name] = threading.Semaphore(0)
        self.state[name] = "ready"

        def run():
            self.sem[name].acquire()
            threading.current_thread().sched_name = name
            sys.settrace(self.tracer(name))
            try:
                self.results[name] = ("ok", fn())
            except BaseException as e:  # noqa
                self.results[name] = ("exc", type(e).__name__, str(e)[:120])
            finally:
                sys.settrace(None)
                self.state[name] = "done"
                self.main.release()
        th = threading.Thread(target=run, daemon=True)
        th.start()
        return th

    def enabled(self):
        out = []
        for n, st in self.state.items():
            if st == "ready":
                out.append(n)
            elif st == "blocked" and self.waiting_on[n].free_for(n):
                out.append(n)
        return out

    def step(self, name):
        self.sem[name].release()
        if not self.main.acquire(timeout=float(os.environ.get("VERIF_K3_STEP_LIMIT", "25"))):
            raise RealBlock(name)


class RealBlock(Exception):
    """A scheduled thread neither parked nor finished: it blocks on something the scheduler does not manage (a real lock) or hangs."""


class PLock:
    """Re-entrant lock proxy: a failed acquire parks the thread as 'blocked' instead of blocking it."""

    def __init__(self, label="?"):
        self.owner = None
        self.depth = 0
        self.label = label

    def free_for(self, name):
        return self.owner is None or self.owner == name

    def _me(self):
        return getattr(threading.current_thread(), "sched_name", None)

    def __enter__(self):
        me = self._me()
        s = Sched.cur
        if me is None or s is None:
            self.owner = "MAIN" if self.owner in (None, "MAIN") else self.owner
            self.depth += 1
            return self
        sys.settrace(None)
        try:
            while not self.free_for(me):
                s.state[me] = "blocked"
                s.waiting_on[me] = self
                s.park(me, f"BLOCKED on {self.label}")
            s.state[me] = "ready"
            self.owner = me
            self.depth += 1
            s.trace.append((me, f"ACQ {self.label}"))
        finally:
            sys.settrace(s.tracer(me))
        return self

    def __exit__(self, *a):
        self.depth -= 1
        if self.depth == 0:
            self.owner = None
        me = self._me()
        if me and Sched.cur:
            Sched.cur.trace.append((me, f"REL {self.label}"))

    acquire = __enter__

    def release(self):
        self.__exit__()


class LockDict(dict):
    def __setitem__(self, k, v):
        if not isinstance(v, PLock):
            v = PLock(f"coll:{os.path.basename(k) if k else k}")
        super().__setitem__(k, v)


def install(classes):
    import synced_collections.data_types.synced_collection as sc
    from synced_collections.backends import collection_json as cj
    sc.RLock = lambda: PLock("coll")
    if hasattr(cj, "RLock"):
        cj.RLock = lambda: PLock("coll")
    for c in classes:
        c._cls_lock = PLock("cls:" + c.__name__)
        c._locks = LockDict()
        if hasattr(c, "_BUFFER_LOCK"):
            c._BUFFER_LOCK = PLock("buf:" + c.__name__)


def run_schedule(setup, prefix, gran):
    s = Sched(gran)
    Sched.cur = s
    finish = setup(s)
    choices, enabled_sets = [], []
    last = None
    outcome = None
    steps = 0
    while True:
        en = s.enabled()
        alive = [n for n, st in s.state.items() if st != "done"]
        if not alive:
            break
        if not en:
            outcome = ("DEADLOCK", {n: (st, getattr(s.waiting_on.get(n), "label", None)) for n, st in s.state.items()})
            break
        i = len(choices)
        if i < len(prefix) and prefix[i] in en:
            pick = prefix[i]
        elif last in en:
            pick = last
        else:
            pick = en[0]
        enabled_sets.append(en)
        choices.append(pick)
        last = pick
        try:
            s.step(pick)
        except RealBlock:
            outcome = ("DEADLOCK", {"thread": pick, "detail": "did not reach the next scheduling point within the step limit: blocked on a lock "
                                                             "outside the scheduler's control, or hung", "fatal": True})
            break
        steps += 1
        if steps > 200000:
            outcome = ("LIVELOCK", {})
            break
    Sched.cur = None
    if outcome is None:
        outcome = finish(s)
    return choices, enabled_sets, outcome, s.trace


def explore(setup, check, gran, max_preempt=2, limit=2000, seed=0, randomize=False):
    """Stateless exploration ordered by number of preemptions: all non-preemptive schedules, then every
    single-preemption schedule, then (randomly ordered) two-preemption schedules, up to `limit` executions."""
    import heapq
    import random
    rnd = random.Random(seed)
    seen = 0
    heap = [(0, 0.0, [])]
    bad = []
    visited = set()
    queued = set()
    while heap and seen < limit:
        pre0, _, prefix = heapq.heappop(heap)
        choices, ens, outcome, trace = run_schedule(setup, prefix, gran)
        key = tuple(choices)
        if key in visited:
            continue
        visited.add(key)
        seen += 1
        ok, why = check(outcome)
        if not ok:
            bad.append({"schedule": "".join(c[-1] for c in choices), "why": why, "outcome": outcome, "trace_tail": trace[-25:]})
            break
        for i in range(len(prefix), len(choices)):
            for alt in ens[i]:
                if alt == choices[i]:
                    continue
                newp = choices[:i] + [alt]
                pre = 0
                for j in range(1, len(newp)):
                    if newp[j] != newp[j - 1] and newp[j - 1] in ens[j]:
                        pre += 1
                k = tuple(newp)
                if pre <= max_preempt and k not in queued:
                    queued.add(k)
                    heapq.heappush(heap, (pre, rnd.random(), newp))
    return seen, bad


# ------------------------------------------------------------------------------------ scenarios
DICT_INIT = {"a": 0, "n": {"k": 1}}
LIST_INIT = [1, {"k": 1}, 3]

MUT = {   # name -> (kind, op descriptor in Ops.v vocabulary)
    "set_x": ("dict", ("DSet", "x", 1)), "set_y": ("dict", ("DSet", "y", 2)), "set_a": ("dict", ("DSet", "a", 9)),
    "del_a": ("dict", ("DDel", "a")), "pop_a": ("dict", ("DPop", "a")), "popitem": ("dict", ("DPopitem",)),
    "update": ("dict", ("DUpdate", {"u": 1, "a": 5})), "setdefault": ("dict", ("DSetdefault", "s", [1])),
    "setdefault2": ("dict", ("DSetdefault", "s", 2)), "set_c": ("dict", ("DSet", "c", {"deep": [1, {"x": 2}]})),
    "update_c": ("dict", ("DUpdate", {"n": {"k": 1, "new": [1]}, "w": {"q": {}}})),
    "append_c": ("list", ("LAppend", {"a": [1, 2]})), "extend_c": ("list", ("LExtend", [{"b": 1}, [2]])),
    "insert_c": ("list", ("LInsert", 1, [{"z": 0}])), "lset_c": ("list", ("LSet", 1, {"r": [1]})),
    "clear_d": ("dict", ("DClear",)), "reset_d": ("dict", ("DReset", {"r": 1})),
    "append": ("list", ("LAppend", 7)), "extend": ("list", ("LExtend", [8, 9])), "insert": ("list", ("LInsert", 0, 5)),
    "lpop": ("list", ("LPop", None)), "lpop0": ("list", ("LPop", 0)), "reverse": ("list", ("LReverse",)),
    "remove": ("list", ("LRemove", 3)), "lset": ("list", ("LSet", 0, 4)), "iadd": ("list", ("LIAdd", [6])),
    "ldel": ("list", ("LDel", 0)), "clear_l": ("list", ("LClear",)), "reset_l": ("list", ("LReset", [0])),
    # reads
    "r_call_d": ("dict", ("DCall",)), "r_get_a": ("dict", ("DGet", "a")), "r_len_d": ("dict", ("DLen",)),
    "r_iter_d": ("dict", ("DIter",)), "r_eq_d": ("dict", ("DEq", {"a": 0, "n": {"k": 1}})), "r_get_d": ("dict", ("DGetDefault", "x", None)),
    "r_call_l": ("list", ("LCall",)), "r_get_l": ("list", ("LGet", 0)), "r_len_l": ("list", ("LLen",)),
}
# forbidden data (C11) travels to the child process as markers (JSON cannot carry an int key or a complex number)
BAD_MUT = {
    "extend_badkey": ("list", ("LExtend", [{"@@badkey": "x"}])), "append_badkey": ("list", ("LAppend", {"w": {"@@badkey": 1}})),
    "extend_badval": ("list", ("LExtend", ["@@badval"])), "iadd_badkey": ("list", ("LIAdd", [{"@@badkey": 2}])),
    "lset_badkey": ("list", ("LSet", 0, [{"@@badkey": 2}])), "insert_badval": ("list", ("LInsert", 0, ["@@badval"])),
    "set_badkey": ("dict", ("DSet", "q", {"@@badkey": 1})), "update_badkey": ("dict", ("DUpdate", {"v": [{"@@badkey": 1}]})),
    "setdefault_badval": ("dict", ("DSetdefault", "sd", ["@@badval"])), "reset_badkey": ("dict", ("DReset", {"r": {"@@badkey": 1}})),
}


def unmark(v):
    if isinstance(v, dict):
        return {(1 if k == "@@badkey" else k): unmark(x) for k, x in v.items()}
    if isinstance(v, (list, tuple)):
        return [unmark(x) for x in v]
    return complex(1, 2) if v == "@@badval" else v


def has_forbidden(v):
    if isinstance(v, dict):
        return any(not isinstance(k, str) or has_forbidden(x) for k, x in v.items())
    if isinstance(v, (list, tuple)):
        return any(has_forbidden(x) for x in v)
    return not (v is None or isinstance(v, (str, int, float, bool)))


NESTED_MUT = {"n_set": ("DSet", "z", 1), "n_clear": ("DClear",), "n_reset": ("DReset", {"q": 2}), "n_update": ("DUpdate", {"k": 2, "w": 3})}


def plain_apply(state, path, op):
    tgt = state
    for k in path:
        tgt = tgt[k]
    return apply_lop(tgt, copy.deepcopy(op)) if isinstance(tgt, list) else apply_dop(tgt, copy.deepcopy(op))


def serial_outcomes(init, ops):
    """ops: list of (thread name, path, op). Returns list of (final, results) for every order."""
    outs = []
    for perm in itertools.permutations(range(len(ops))):
        st = copy.deepcopy(init)
        res = {}
        for i in perm:
            tn, path, op = ops[i]
            try:
                res[tn] = ["ok", copy.deepcopy(plain_apply(st, path, op))]
            except Exception as e:  # noqa
                res[tn] = ["exc", type(e).__name__]
        outs.append((st, res))
    return outs


def canon(v):
    return json.dumps(v, sort_keys=True, default=repr)


def child(spec):
    """Run one scenario (in this process) and print its result as JSON."""
    ns = import_library()
    cj = ns.cj
    cls = getattr(cj, spec["cls"])
    install(list(ns.json_classes))      # nested children may be of another class than the root: their locks are scheduled too
    d = tempfile.mkdtemp(prefix="verif_k3_")
    files = [os.path.join(d, f"f{i}.json") for i in range(2)]
    kind = "list" if spec["cls"].endswith("List") else "dict"
    init = copy.deepcopy(LIST_INIT if kind == "list" else DICT_INIT)
    if spec.get("init_extra") and kind == "dict":
        init["l"] = [1, 2]
    threads = spec["threads"]         # list of {"name", "obj", "file", "path", "op", "read"}
    per_file_ops = {}
    bad_threads = {t["name"] for t in threads if t.get("bad")}
    for t in threads:
        per_file_ops.setdefault(t["file"], [])
        if not t.get("bad"):
            per_file_ops[t["file"]].append((t["name"], t["path"], tuple(t["op"])))
    # operations done by the main thread inside the context before the threads start (e.g. a buffered modification)
    pre = spec.get("pre", [])          # list of {"obj", "file", "op"}
    init_of = {}
    for fi in set(list(per_file_ops) + [p["file"] for p in pre]):
        st0 = copy.deepcopy(init)
        for p in pre:
            if p["file"] == fi:
                plain_apply(st0, [], tuple(p["op"]))
        init_of[fi] = st0
    allowed = {fi: serial_outcomes(init_of[fi], ops) for fi, ops in per_file_ops.items()}
    buffered, cap = spec.get("buffered"), spec.get("cap")
    default_cap = cls.get_buffer_capacity() if hasattr(cls, "get_buffer_capacity") else None

    def setup(s):
        for f in files:
            with open(f, "w") as fh:
                json.dump(init, fh)
        if hasattr(cls, "_buffer"):
            reset_buffer_class(cls, default_cap)
        install(list(ns.json_classes))
        objs = {}
        for t in threads:
            if t.get("construct"):
                continue                      # this thread opens its own object (first user of the file's lock)
            if t["obj"] not in objs:
                objs[t["obj"]] = cls(files[t["file"]])
                objs[t["obj"]]()
        handles = {}
        for t in threads:
            if t.get("construct"):
                handles[t["name"]] = None
                continue
            h = objs[t["obj"]]
            for k in t["path"]:
                h = h[k]
            handles[t["name"]] = h
        ctx = None
        if buffered:
            ctx = cls.buffer_backend(cap) if cap is not None else cls.buffer_backend()
            ctx.__enter__()
        for p in pre:
            if p["obj"] not in objs:
                objs[p["obj"]] = cls(files[p["file"]])
            o_ = objs[p["obj"]]
            apply_lop(o_, copy.deepcopy(tuple(p["op"]))) if kind == "list" else apply_dop(o_, copy.deepcopy(tuple(p["op"])))
        for t in threads:
            h = handles[t["name"]]
            op = tuple(unmark(list(t["op"]))) if t.get("bad") else tuple(t["op"])
            conv = (lambda x: x._to_base() if hasattr(x, "_to_base") else x)
            if t.get("construct"):
                def body(t=t, op=op, conv=conv):
                    o = cls(files[t["file"]])
                    objs[t["name"] + ":own"] = o
                    return copy.deepcopy(apply_lop(o, copy.deepcopy(op), conv) if kind == "list" else apply_dop(o, copy.deepcopy(op), conv))
                s.spawn(t["name"], body)
                continue
            is_list = isinstance(object.__getattribute__(h, "_data"), list)
            s.spawn(t["name"], (lambda h=h, op=op, is_list=is_list: copy.deepcopy(
                apply_lop(h, copy.deepcopy(op), conv) if is_list else apply_dop(h, copy.deepcopy(op), conv))))

        def finish(s):
            err = None
            if ctx is not None:
                try:
                    ctx.__exit__(None, None, None)
                except BaseException as e:  # noqa
                    err = f"{type(e).__name__}: {e}"
            disk = []
            for f in files:
                with open(f) as fh:
                    disk.append(json.load(fh))
            res = {tn: (["ok", r[1]] if r[0] == "ok" else ["exc", r[1]]) for tn, r in s.results.items()}
            size = cls.get_current_buffer_size() if hasattr(cls, "get_current_buffer_size") else 0
            if bad_threads:
                mem_bad = [name for name, o in objs.items() if has_forbidden(o._to_base())]
                if mem_bad:
                    err = (err or "") + f" forbidden data in the memory of {mem_bad}"
            return ("DONE", disk, res, err, size)
        return finish

    def check(out):
        if out[0] in ("DEADLOCK", "LIVELOCK"):
            return False, out[0].lower()
        _, disk, res, err, size = out
        if err:
            return False, f"context exit raised {err}"
        if buffered and size != 0:
            return False, f"buffer size {size} after the context exited"
        for tn in bad_threads:
            r = res.get(tn)
            if r is None or r[0] != "exc" or r[1] not in ("TypeError", "ValueError", "KeyTypeError", "InvalidKeyError"):
                return False, f"thread {tn} offered forbidden data and got {r} instead of a TypeError/ValueError"
        for tn, r in res.items():
            if tn in bad_threads:
                continue
            if r[0] == "exc" and not any(o[1].get(tn, [None])[0] == "exc" for fi in allowed for o in allowed[fi]):
                return False, f"thread {tn} failed with {r[1]}"
        for fi, outs in allowed.items():
            names = [o[0] for o in per_file_ops[fi]]
            readers = {t["name"] for t in threads if t.get("read")}
            ok = False
            for final, results in outs:
                if canon(final) != canon(disk[fi]):
                    continue
                if all(tn in readers or canon(results[tn]) == canon(res.get(tn)) for tn in names):
                    ok = True
                    break
            if not ok:
                return False, f"file {fi}: content {disk[fi]} with results { {n: res.get(n) for n in names} } is not the outcome of any serial order"
            # readers: the value must be one the collection had at some moment: result of the read in SOME serial position
            for tn in names:
                if tn in readers:
                    vals = {canon(results[tn]) for _, results in outs}
                    if canon(res.get(tn)) not in vals:
                        return False, f"reader {tn} returned {res.get(tn)}, not a value the collection ever had"
        return True, ""

    seen, bad = explore(setup, check, spec.get("gran", "call"), spec.get("max_preempt", 2), spec.get("limit", 200),
                        seed=spec.get("seed", 0), randomize=spec.get("randomize", False))
    import shutil
    shutil.rmtree(d, ignore_errors=True)
    print("K3RESULT " + json.dumps({"name": spec["name"], "schedules": seen, "bad": bad}, default=repr))
    sys.stdout.flush()
    os._exit(0)


def thread_spec(name, mut, obj, file=0, path=(), read=False):
    if mut in BAD_MUT:
        kind, op = BAD_MUT[mut]
        return {"name": name, "obj": obj, "file": file, "path": list(path), "op": list(op), "read": False, "mut": mut, "bad": True}
    kind, op = MUT[mut] if mut in MUT else ("dict", NESTED_MUT[mut])
    return {"name": name, "obj": obj, "file": file, "path": list(path), "op": list(op), "read": read, "mut": mut}


def scenarios_c11(tier):
    """C11 next to a concurrent writer: a thread offering forbidden data is rejected and nothing forbidden gets in, whatever the
    other thread is doing on the same object (validation must not depend on state another thread toggles)."""
    out = []
    lists = [("append_c", b) for b in ("extend_badkey", "append_badkey", "extend_badval", "iadd_badkey", "lset_badkey", "insert_badval")]
    dicts = [("set_c", b) for b in ("set_badkey", "update_badkey", "setdefault_badval", "reset_badkey")] + [("update_c", "update_badkey")]
    if tier == "quick":
        lists, dicts = lists[:4], dicts[:3]
    for a, b in lists:
        for cls in (("JSONList", "JSONAttrList") if tier != "quick" else ("JSONList",)):
            out.append({"name": f"C11:{cls}:{a}|{b}:same-object", "cls": cls, "limit": 160,
                        "threads": [thread_spec("T1", a, "o1"), thread_spec("T2", b, "o1")]})
    for a, b in dicts:
        out.append({"name": f"C11:JSONDict:{a}|{b}:same-object", "cls": "JSONDict", "limit": 160,
                    "threads": [thread_spec("T1", a, "o1"), thread_spec("T2", b, "o1")]})
    # a list nested in a dict root: the child shares the root's synchronisation state
    out.append({"name": "C11:JSONDict:set_c|nested extend_badkey", "cls": "JSONDict", "limit": 160, "init_extra": True,
                "threads": [thread_spec("T1", "set_c", "o1"), dict(thread_spec("T2", "extend_badkey", "o1", path=("l",)))]})
    return out


def scenarios_c09(tier):
    out = []
    dict_muts = ["set_x", "set_a", "del_a", "pop_a", "popitem", "update", "setdefault", "setdefault2", "set_c", "update_c", "clear_d", "reset_d"]
    list_muts = ["append", "extend", "insert", "lpop", "lpop0", "reverse", "remove", "lset", "iadd", "ldel", "clear_l", "reset_l",
                 "append_c", "extend_c", "insert_c", "lset_c"]
    pairs_d = list(itertools.combinations_with_replacement(dict_muts, 2))
    pairs_l = list(itertools.combinations_with_replacement(list_muts, 2))
    if tier == "quick":
        pairs_d = [("set_x", "set_a"), ("set_x", "clear_d"), ("update", "reset_d"), ("pop_a", "del_a"), ("setdefault", "popitem"), ("clear_d", "reset_d"),
                   ("setdefault", "setdefault2"), ("set_c", "set_x"), ("update_c", "del_a")]
        pairs_l = [("lpop", "lpop"), ("append", "reverse"), ("clear_l", "append"), ("reset_l", "insert"), ("remove", "extend"), ("lset", "ldel"),
                   ("append_c", "append"), ("extend_c", "lpop"), ("insert_c", "iadd")]
    for a, b in pairs_d:
        for same in (True, False):
            out.append({"name": f"C09:{a}|{b}:{'same' if same else 'two'}-object", "cls": "JSONDict",
                        "threads": [thread_spec("T1", a, "o1"), thread_spec("T2", b, "o1" if same else "o2")]})
    for a, b in pairs_l:
        for same in (True, False):
            out.append({"name": f"C09:{a}|{b}:{'same' if same else 'two'}-object", "cls": "JSONList",
                        "threads": [thread_spec("T1", a, "o1"), thread_spec("T2", b, "o1" if same else "o2")]})
    # nested children obtained before the threads start
    for a in (["n_set", "n_clear", "n_reset", "n_update"] if tier != "quick" else ["n_clear", "n_update"]):
        for b in (["set_x", "clear_d", "n_set"] if tier != "quick" else ["set_x", "n_set"]):
            t2 = thread_spec("T2", b, "o2", path=("n",)) if b.startswith("n_") else thread_spec("T2", b, "o2")
            out.append({"name": f"C09:nested {a}|{b}", "cls": "JSONDict", "threads": [thread_spec("T1", a, "o1", path=("n",)), t2]})
    # every thread opens its own object on a file nobody has opened yet (the per-file lock is created by the first constructor)
    for a, b in ([("set_x", "set_y"), ("update", "del_a")] if tier == "quick" else [("set_x", "set_y"), ("update", "del_a"), ("set_c", "popitem"), ("reset_d", "set_x")]):
        out.append({"name": f"C09:{a}|{b}:objects-constructed-in-the-threads", "cls": "JSONDict", "limit": 400 if tier == "quick" else 1500,
                    "threads": [dict(thread_spec("T1", a, "t1", file=1), construct=True), dict(thread_spec("T2", b, "t2", file=1), construct=True)]})
    if tier != "quick":
        for cls in ("JSONAttrDict", "BufferedJSONDict", "MemoryBufferedJSONDict"):
            for a, b in [("set_x", "clear_d"), ("update", "reset_d")]:
                out.append({"name": f"C09:{cls}:{a}|{b}", "cls": cls, "threads": [thread_spec("T1", a, "o1"), thread_spec("T2", b, "o1")]})
        out.append({"name": "C09:three threads", "cls": "JSONDict", "limit": 600,
                    "threads": [thread_spec("T1", "set_x", "o1"), thread_spec("T2", "del_a", "o1"), thread_spec("T3", "update", "o2")]})
    return out


def scenarios_c13(tier):
    out = []
    combos = [("set_x", "set_y"), ("set_x", "clear_d"), ("update", "reset_d"), ("del_a", "setdefault")]
    lcombos = [("append", "extend"), ("insert", "reset_l"), ("append", "clear_l")]
    if tier == "quick":
        combos, lcombos = combos[:3], lcombos[:2]
    for cls_d, cls_l in (("BufferedJSONDict", "BufferedJSONList"), ("MemoryBufferedJSONDict", "MemoryBufferedJSONList")):
        caps = [None, 0, 1] if cls_d.startswith("Memory") else [None, 0, 30]
        for cap in caps:
            for a, b in combos:
                for layout in ("same-object", "same-file", "two-files"):
                    if tier == "quick" and layout == "same-file" and cap is None:
                        continue
                    t2 = {"same-object": thread_spec("T2", b, "o1"), "same-file": thread_spec("T2", b, "o2"),
                          "two-files": thread_spec("T2", b, "o2", file=1)}[layout]
                    out.append({"name": f"C13:{cls_d}:cap={cap}:{a}|{b}:{layout}", "cls": cls_d, "buffered": True, "cap": cap,
                                "threads": [thread_spec("T1", a, "o1"), t2]})
            # reads on an object no other thread uses (allowed by C13), next to a writer on another object of the file
            for rd in (["r_get_a", "r_len_d", "r_get_d"] if tier != "quick" else ["r_get_a"]):
                for w in (["set_x", "update", "del_a"] if tier != "quick" else ["set_x"]):
                    out.append({"name": f"C13:{cls_d}:cap={cap}:{rd}|{w}:private-reader", "cls": cls_d, "buffered": True, "cap": cap,
                                "threads": [thread_spec("R", rd, "o1", read=True), thread_spec("W", w, "o2")]})
            for a, b in lcombos:
                out.append({"name": f"C13:{cls_l}:cap={cap}:{a}|{b}:two-files", "cls": cls_l, "buffered": True, "cap": cap,
                            "threads": [thread_spec("T1", a, "o1"), thread_spec("T2", b, "o2", file=1)]})
            # values that are containers (converted to nested collections) next to another writer on the same root / a nested child
            for a, b, p2 in [("set_c", "set_x", ()), ("set_c", "n_set", ("n",)), ("update_c", "del_a", ())]:
                out.append({"name": f"C13:{cls_d}:cap={cap}:{a}|{b}:same-object nested value", "cls": cls_d, "buffered": True, "cap": cap, "limit": 400,
                            "threads": [thread_spec("T1", a, "o1"), thread_spec("T2", b, "o1", path=p2)]})
            out.append({"name": f"C13:{cls_l}:cap={cap}:append_c|append:same-object nested value", "cls": cls_l, "buffered": True, "cap": cap, "limit": 400,
                        "threads": [thread_spec("T1", "append_c", "o1"), thread_spec("T2", "append", "o1")]})
            # a nested child of ANOTHER type than its root (a list inside a dict) next to a writer on the root: the child must
            # take its root's locks, not those of its own class
            out.append({"name": f"C13:{cls_d}:cap={cap}:append through a nested list|set_x on the root", "cls": cls_d, "buffered": True, "cap": cap,
                        "limit": 400, "init_extra": True,
                        "threads": [dict(thread_spec("T1", "append", "o1", path=("l",))), thread_spec("T2", "set_x", "o1")]})
            # check-then-act inside one mutator: both threads setdefault the same missing key
            for layout, o2 in (("same-object", "o1"), ("same-file", "o2")):
                out.append({"name": f"C13:{cls_d}:cap={cap}:setdefault|setdefault2:{layout}", "cls": cls_d, "buffered": True, "cap": cap, "limit": 400,
                            "threads": [thread_spec("T1", "setdefault", "o1"), thread_spec("T2", "setdefault2", o2)]})
            # a reader on a private object whose load overfills the buffer evicts (force-flushes) ANOTHER file that a writer
            # thread has modified in the buffer and keeps modifying
            if cap and not cls_d.startswith("Memory"):
                # capacity 40: one document fits, two do not (the reader's load of file 0 evicts file 1)
                out.append({"name": f"C13:{cls_d}:cap=40:evicting private reader|writer on the evicted file", "cls": cls_d, "buffered": True, "cap": 40, "limit": 700,
                            "pre": [{"obj": "o2", "file": 1, "op": ["DSet", "pre", 1]}],
                            "threads": [thread_spec("R", "r_call_d", "o1", read=True), thread_spec("W", "set_x", "o2", file=1)]})
    return out


def scenarios_c10(tier):
    """C10 explores what C13 explores (buffered, lock order) plus programs in which the per-file lock does not exist yet when
    the threads start: every thread opens its own object; a third thread queues behind them."""
    out = scenarios_c13(tier)
    for cls in (("JSONDict", "BufferedJSONDict") if tier != "quick" else ("JSONDict",)):
        out.append({"name": f"C10:{cls}:three constructors set_x|set_y|set_a", "cls": cls, "limit": 500 if tier == "quick" else 2500,
                    "threads": [dict(thread_spec("T1", "set_x", "t1", file=1), construct=True), dict(thread_spec("T2", "set_y", "t2", file=1), construct=True),
                                dict(thread_spec("T3", "set_a", "t3", file=1), construct=True)]})
        out.append({"name": f"C10:{cls}:two constructors update|del_a", "cls": cls, "limit": 400 if tier == "quick" else 1500,
                    "threads": [dict(thread_spec("T1", "update", "t1", file=1), construct=True), dict(thread_spec("T2", "del_a", "t2", file=1), construct=True)]})
    return out


def scenarios_c14(tier):
    """Readers next to writers.  same=True is the known finding D18 (shared object)."""
    out = []
    reads_d = ["r_call_d", "r_get_a", "r_len_d", "r_iter_d", "r_eq_d", "r_get_d"]
    writes_d = ["set_x", "del_a", "update", "clear_d", "reset_d"]
    if tier == "quick":
        reads_d, writes_d = ["r_call_d", "r_get_a", "r_eq_d"], ["set_x", "update", "clear_d"]
    for r in reads_d:
        for w in writes_d:
            for cls, buffered in (("JSONDict", False), ("BufferedJSONDict", True), ("MemoryBufferedJSONDict", True)):
                if tier == "quick" and buffered and (r, w) not in (("r_call_d", "set_x"), ("r_get_a", "update")):
                    continue
                out.append({"name": f"C14:{cls}:{r}|{w}:two-objects", "cls": cls, "buffered": buffered,
                            "threads": [thread_spec("R", r, "o1", read=True), thread_spec("W", w, "o2")]})
    # a reader between two writes of another object (the reader's object is registered last in the buffer)
    for cls, buffered in (("BufferedJSONDict", True), ("JSONDict", False), ("MemoryBufferedJSONDict", True)):
        out.append({"name": f"C14:{cls}:r_get_d|set_x,set_y:two-objects", "cls": cls, "buffered": buffered, "limit": 400,
                    "threads": [thread_spec("R", "r_get_d", "o1", read=True), thread_spec("W1", "set_x", "o2"), thread_spec("W2", "set_y", "o2")]})
    # a reader that OPENS ITS OWN OBJECT on the file (constructor inside the thread) while two writers on two other objects
    # are at work: constructing must not disturb the file's lock
    for r in (["r_get_d", "r_call_d"] if tier != "quick" else ["r_get_d"]):
        out.append({"name": f"C14:JSONDict:constructing reader {r}|set_x|set_y", "cls": "JSONDict", "limit": 700 if tier == "quick" else 2500,
                    "threads": [dict(thread_spec("R", r, "own", read=True), construct=True), thread_spec("W1", "set_x", "o1"), thread_spec("W2", "set_y", "o2")]})
    for r in (["r_call_l", "r_get_l", "r_len_l"] if tier != "quick" else ["r_call_l"]):
        for w in (["append", "lpop", "reverse", "clear_l"] if tier != "quick" else ["append", "lpop"]):
            out.append({"name": f"C14:JSONList:{r}|{w}:two-objects", "cls": "JSONList",
                        "threads": [thread_spec("R", r, "o1", read=True), thread_spec("W", w, "o2")]})
    return out


def scenarios_d18(tier):
    out = []
    for r, w in [("r_call_d", "set_x"), ("r_get_a", "update"), ("r_len_d", "del_a")]:
        out.append({"name": f"D18:JSONDict:{r}|{w}:same-object", "cls": "JSONDict", "limit": 400,
                    "threads": [thread_spec("R", r, "o1", read=True), thread_spec("W", w, "o1")]})
    return out


def run_scenarios(specs, tier, seed, jobs=14, gran=None):
    import concurrent.futures as cf
    results = []

    def one(spec):
        spec = dict(spec)
        spec.setdefault("gran", gran or "call")
        spec.setdefault("limit", 260 if tier == "quick" else 900)
        spec.setdefault("seed", seed)
        p = subprocess.run([sys.executable, os.path.abspath(__file__), "child", json.dumps(spec)], capture_output=True, text=True,
                           env=dict(os.environ, PYTHONHASHSEED="0", VERIF_REPO=REPO), timeout=3600)
        m = re.search(r"K3RESULT (.*)", p.stdout)
        if not m:
            return {"name": spec["name"], "schedules": 0, "bad": [], "error": (p.stderr or p.stdout)[-800:], "spec": spec}
        r = json.loads(m.group(1))
        r["spec"] = spec
        return r
    specs = list(specs)
    if tier != "quick" and gran is None:
        # line granularity (every preemption point between two executed lines of library code) on a subset
        names = set()
        for sp in specs:
            key = sp["name"].split(":")[0] + sp["cls"] + str(sp.get("cap")) + str(len(names) % 7)
            if len(names) < 40 and key not in names:
                names.add(key)
                sp2 = dict(sp)
                sp2.update(name=sp["name"] + " [line granularity]", gran="line", limit=500)
                specs.append(sp2)
    with cf.ThreadPoolExecutor(max_workers=jobs) as ex:
        for r in ex.map(one, specs):
            results.append(r)
    return results


def summarise(name, results, tag):
    res = {"name": name, "model_mismatches": [], "oracle_failures": [], "samples": [], "stats": {}}
    total = 0
    for r in results:
        total += r["schedules"]
        if r.get("error"):
            res["model_mismatches"].append({"correspondence": "K3 child", "scenario": r["name"], "error": r["error"]})
        for b in r["bad"]:
            res["oracle_failures"].append({"oracle": tag, "scenario": r["name"], "schedule": b["schedule"], "detail": b["why"],
                                           "outcome": b["outcome"], "trace_tail": b["trace_tail"][-12:], "spec": r["spec"]})
    res.update(evaluations=total, distinct_nontrivial=total, traces=total,
               rule="distinct schedules (thread choice at every scheduling point) of small multi-threaded programs on the real code, "
                    "stateless DFS with a preemption bound; every schedule is checked against all serial orders on plain data",
               samples=[{"scenario": r["name"], "schedules": r["schedules"]} for r in results[:4]],
               stats={"scenarios": len(results), "schedules": total})
    return res


if __name__ == "__main__":
    if len(sys.argv) > 2 and sys.argv[1] == "child":
        child(json.loads(sys.argv[2]))
    else:
        which = sys.argv[1] if len(sys.argv) > 1 else "c09"
        tier = sys.argv[2] if len(sys.argv) > 2 else "quick"
        specs = {"c09": scenarios_c09, "c13": scenarios_c13, "c14": scenarios_c14, "d18": scenarios_d18, "c11": scenarios_c11, "c10": scenarios_c10}[which](tier)
        t = time.time()
        rs = run_scenarios(specs, tier, 1)
        s = summarise(which, rs, which)
        print(which, "scenarios", len(specs), "schedules", s["evaluations"], "failures", len(s["oracle_failures"]), "errors", len(s["model_mismatches"]),
              "wall", round(time.time() - t, 1))
        for f in s["oracle_failures"][:6]:
            print("  FAIL", f["scenario"], f["schedule"], f["detail"][:300])
        for m in s["model_mismatches"][:3]:
            print("  ERR", m["scenario"], m["error"][-400:])
