import json, os, tempfile, sys, traceback
sys.path.insert(0, '/repo')
from synced_collections.backends.collection_json import *
from synced_collections.errors import *
d = tempfile.mkdtemp()
def fn(n): return os.path.join(d, n)
def store(f, data):
    with open(f, 'w') as fh: json.dump(data, fh)
def disk(f):
    try:
        with open(f) as fh: return json.load(fh)
    except FileNotFoundError: return 'MISSING'
def sec(t): print('\n===', t)
def attempt(label, thunk):
    try: print(label, thunk())
    except Exception as e: print(label, 'EXC', type(e).__name__, e)

for D, L in [(BufferedJSONDict, BufferedJSONList), (MemoryBufferedJSONDict, MemoryBufferedJSONList)]:
    sec(f'C05 {D.__name__}: clear inside buffer')
    f = fn(D.__name__ + '.json'); store(f, {'a': 1})
    x = D(f)
    with x.buffered:
        x['b'] = 2
        x.clear()
        print('  after clear in buffer, read:', x(), 'disk', disk(f))
    print('  after exit:', x(), 'disk', disk(f))
    store(f, {'a': 1})
    with x.buffered:
        print('  read first', x())
        x.clear()
        print('  after clear in buffer (loaded first):', x())
    print('  after exit:', x(), 'disk', disk(f))
    sec(f'C05 {D.__name__}: reset dict inside buffer')
    store(f, {'a': 1, 'b': 2})
    with x.buffered:
        x()
        x.reset({'c': 3})
        print('  in:', x())
    print('  after exit:', x(), disk(f))
    sec(f'C05 {L.__name__}: reset list shorter inside buffer')
    fl = fn(L.__name__ + '.json'); store(fl, [1, 2, 3, 4])
    y = L(fl)
    with y.buffered:
        y()
        y.reset([9])
        print('  in:', y())
    print('  after exit:', y(), disk(fl))
    sec(f'C05 {L.__name__}: obj.buffered inside buffer_backend')
    store(fl, [1])
    def t():
        with L.buffer_backend():
            with y.buffered:
                y.append(5)
            print('   inner exit ok', y())
        return (y(), disk(fl))
    attempt('  list nested ctx:', t)
    print('  state: backend buffered?', L.backend_is_buffered(), 'obj buffered', bool(y.buffered), 'size', L.get_current_buffer_size(), L._buffer.keys(), L._buffered_collections)
    def t2():
        with D.buffer_backend():
            with x.buffered:
                x['q'] = 5
            print('   inner exit ok', x())
        return (x(), disk(f))
    attempt('  dict nested ctx:', t2)
    def t3():
        with x.buffered:
            with D.buffer_backend():
                x['q2'] = 5
            print('   inner exit ok', x(), disk(f))
        return (x(), disk(f))
    attempt('  dict nested ctx reversed:', t3)
    sec(f'C05 {D.__name__}: nested child mutators while buffered')
    store(f, {'n': {'l': [1]}})
    with x.buffered:
        c = x['n']['l']
        c.append(2); x['n']['z'] = 1
        c.clear()
        print('  in', x(), disk(f))
    print('  out', x(), disk(f))
