(* Correspondence K-buf: Buffer.v against the real buffered classes, step by step. *)
From Coq Require Import List ZArith NArith Bool.
From SC Require Import Model.Val Model.Plain Model.Ops Model.Buffer Corr.KPlain.
Import ListNotations.
Local Open Scope Z_scope.

(* len(json.dumps(v)) on the fragment the buffer generator uses:
   null, booleans, integers, escape-free ASCII strings, lists, dicts with such keys *)
Fixpoint digits (fuel : nat) (n : Z) : Z :=
  match fuel with
  | O => 1
  | S f => if n <? 10 then 1 else 1 + digits f (n / 10)
  end.
Definition int_len (z : Z) : Z := if z <? 0 then 1 + digits 400 (- z) else digits 400 z.
Definition scalar_len (s : scalar) : Z :=
  match s with
  | SNull => 4 | SBool true => 4 | SBool false => 5
  | SInt z => int_len z
  | SStr t => zlen t + 2
  | SFloat _ | SBad _ => 0
  end.
Definition key_len (k : key) : Z := match k with KStr t => zlen t + 2 | KBad _ => 0 end.
Fixpoint blen_json (v : val) : Z :=
  match v with
  | VS s => scalar_len s
  | VL l => 2 + fold_right (fun x acc => blen_json x + acc) 0 l + 2 * Z.max 0 (zlen l - 1)
  | VD d => 2 + fold_right (fun (kv : key * val) acc => key_len (fst kv) + 2 + blen_json (snd kv) + acc) 0 d
            + 2 * Z.max 0 (zlen d - 1)
  end.

Inductive bexp := XOk (v : val) | XErr (e : err) | XMetaE (f : nat) | XBufE (fs : list nat) | XAny.

Record bkstep := {
  bk_op : bop;
  bk_exp : bexp;
  bk_files : list (nat * option val);
  bk_wrote : list nat;
  bk_size : Z;
  bk_cap : Z;
  bk_buffered : list nat;      (* files present in cls._buffer *)
}.

Definition memb (x : nat) (l : list nat) : bool := existsb (Nat.eqb x) l.
Definition same_set (a b : list nat) : bool :=
  forallb (fun x => memb x b) a && forallb (fun x => memb x a) b.
Definition opt_val_eqb (a b : option val) : bool :=
  match a, b with None, None => true | Some x, Some y => veq_strict x y | _, _ => false end.
Definition take_new (new old : list nat) : list nat := firstn (length new - length old) new.

(* dict iteration results are compared up to order: key order after reloads / bulk updates is unspecified (C03) - and since
   repair 025a20d a root reset by an object that was not bound to the shared container MERGES into it (existing keys keep
   their place), where the flat model replaces the content *)
Definition bperm_eqb (l m : list val) : bool :=
  Nat.eqb (length l) (length m)
  && forallb (fun x => Nat.eqb (length (filter (veq_strict x) l)) (length (filter (veq_strict x) m))) l.
Definition border_free (o : bop) : bool :=
  match o with
  | BOp _ _ (OD DKeys) | BOp _ _ (OD DIter) | BOp _ _ (OD DValues) | BOp _ _ (OD DItems) => true
  | _ => false
  end.

(* reason codes: 2 result, 4 files, 5 writes, 6 size, 7 capacity, 8 buffered set, 9 model rejected *)
Definition check_bstep (st : strategy) (s : bstate) (k : bkstep) : bstate + nat :=
  let (s', r) := bstep_fn st blen_json s (bk_op k) in
  let res_ok :=
    match bk_exp k, r with
    | XAny, _ => true
    | XOk v, BOk w =>
        if border_free (bk_op k) then
          match v, w with VL l, VL m => bperm_eqb l m | _, _ => veq_strict w v end
        else veq_strict w v
    | XErr e, BErr f => err_eqb e f
    | XMetaE f, BExn (XMeta g) => Nat.eqb f g
    | XBufE fs, BExn (XBuf gs) => same_set fs gs
    | _, _ => false
    end in
  match r with
  | BBad => inr 9%nat
  | _ =>
      if negb res_ok then inr 2%nat
      else if negb (forallb (fun fc : nat * option val => opt_val_eqb (read_disk s' (fst fc)) (snd fc)) (bk_files k)) then inr 4%nat
      else if negb (same_set (take_new (b_writes s') (b_writes s)) (bk_wrote k)) then inr 5%nat
      else if negb (b_size s' =? bk_size k) then inr 6%nat
      else if negb (b_cap s' =? bk_cap k) then inr 7%nat
      else if negb (same_set (map fst (b_buffer s')) (bk_buffered k)) then inr 8%nat
      else inl s'
  end.

Fixpoint check_bsteps (st : strategy) (s : bstate) (ks : list bkstep) (i : nat) : option (nat * nat) :=
  match ks with
  | [] => None
  | k :: ks' => match check_bstep st s k with
                | inl s' => check_bsteps st s' ks' (S i)
                | inr c => Some (i, c)
                end
  end.

Definition b_init (cap : Z) : bstate :=
  {| b_files := []; b_clock := 0; b_writes := []; b_heap := []; b_nloc := 0; b_objs := [];
     b_buffer := []; b_size := 0; b_cap := cap; b_stack := []; b_ctx := 0; b_bcs := []; b_forced := 0 |}.

Definition diag_bcase (st : strategy) (cap : Z) (ks : list bkstep) : option (nat * nat) :=
  check_bsteps st (b_init cap) ks 0.
Definition check_bcase (c : strategy * Z * list bkstep) : bool :=
  match c with (st, cap, ks) => match diag_bcase st cap ks with None => true | Some _ => false end end.

(* diagnostics *)
Fixpoint btrace (st : strategy) (s : bstate) (ks : list bkstep) : list (bres * Z * Z * list nat) :=
  match ks with
  | [] => []
  | k :: ks' => let (s', r) := bstep_fn st blen_json s (bk_op k) in
                (r, b_size s', b_cap s', map fst (b_buffer s')) :: btrace st s' ks'
  end.
