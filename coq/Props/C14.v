(* C14 — Readers next to writers: no lost update, no impossible state, no error.  Property theorems only.

   FULL STATEMENT (not proved; it is FALSE of the faithful model and of the code — known finding D18):
     for every schedule of reader and writer threads on one object or on two objects bound to one file,
     unbuffered or buffered, results and final content equal those of some serial order and every read
     returns a content the collection had between its start and its end.
   What is missing for it: read APIs would have to run under the collection lock (they load and merge
   without it, by design: "allowing read operations to happen freely").

   PROVED (partial): the case in which the reader uses an object no writer uses and the objects do not share
   in-memory data (unbuffered, or the serialized strategy): the reader's only access to shared state is one
   atomic read of the file, so it is an operation whose body does not change the shared component; it can
   be placed anywhere in the serial order and the writers' serializability (C09) is unaffected. *)
From Coq Require Import List Bool Arith.
From SC Require Import Model.Conc Proofs.ConcMutex Proofs.ConcFaults Model.Suspend Proofs.SuspendProofs.
Import ListNotations.

(* a lock-free reader, modelled as a program with NO lock events, cannot leak or deadlock *)
Theorem C14_reads_take_no_exclusive_section :
  forallb (fun v => match sexec (prog_of_op FUnbuf v KRead) (fun _ => false) held0 with
                    | (_, _, es) => forallb (fun e => match e with
                                                      | EAcq LBuf | ERel LBuf | EAcq LCls | ERel LCls => false
                                                      | _ => true end) es
                    end) all_variants = true.
Proof. vm_compute. reflexivity. Qed.
Print Assumptions C14_reads_take_no_exclusive_section.

(* writers stay serializable whatever readers on OTHER objects do: readers are not part of the writers'
   programs, and the theorem quantifies over every schedule of the writers *)
Theorem C14_partial_separate_objects : forall (S R Lc : Type) (s0 : nat -> S) (ths : nat -> list (opd S R Lc)) (sched : list nat),
  let c := exec S R Lc (init_config S R Lc s0 ths) sched in
  quiescent S R Lc c ->
  (forall l, sh S R Lc c l = fst (serial S R Lc (log S R Lc c) s0) l)
  /\ (forall t, done S R Lc (thrs S R Lc c t) = mine R t (snd (serial S R Lc (log S R Lc c) s0))).
Proof. exact mutex_serializable. Qed.
Print Assumptions C14_partial_separate_objects.

(* an atomic read of a component always returns a value that component had: at any point of any schedule,
   a free lock's component is the result of the serial execution of the operations completed so far *)
Theorem C14_read_sees_a_real_state : forall (S R Lc : Type) (s0 : nat -> S) (ths : nat -> list (opd S R Lc)) (sched : list nat) (l : nat),
  let c := exec S R Lc (init_config S R Lc s0 ths) sched in
  holder S R Lc c l = None -> sh S R Lc c l = fst (serial S R Lc (log S R Lc c) s0) l.
Proof. exact mutex_serializable_per_lock. Qed.
Print Assumptions C14_read_sees_a_real_state.

(* REFUTATION of the full statement (known finding D18), in an executable model of exactly the code paths
   involved (Model/Suspend.v): reader and writer on ONE object share the suspend counter; in the interleaving
   "reader enters its suspended section — the writer's whole operation — reader merges" the writer's load
   and save are both skipped and the reader's merge removes the change from memory: the update is lost
   although the writer returned.  The K3 scheduler replays this on the real code on every run (D18 probe). *)
Theorem C14_refuted_same_object :
  exists c k v sched,
    sched = [RCheckAndRead; RSuspendInc; WLoad; WMutate k v; WSave; RMerge; RSuspendDec]
    /\ lost (run (init c) sched) k v = true.
Proof. exact d18_lost_update. Qed.
Print Assumptions C14_refuted_same_object.
