(* BufferSimAux7.v — one operation through an object (S2). *)
From Coq Require Import List ZArith NArith Bool Lia Arith.
From SC Require Import Model.Val Model.Plain Model.Ops Proofs.TreeDefs Proofs.TreeBase Model.Buffer Proofs.BufferDefs.
From SC Require Import Proofs.BufferSimAux1 Proofs.BufferSimAux2 Proofs.BufferSimAux3 Proofs.BufferSimAux4
  Proofs.BufferSimAux5 Proofs.BufferSimAux6.
Import ListNotations.
Local Open Scope Z_scope.

(* clear / reset do not look at the old content *)
Lemma plain_nop_no_load o v1 v2 r1 n1 r2 n2 :
  nop_no_load o = true -> pre_err o = None ->
  plain_nop v1 o = Some (r1, n1) -> plain_nop v2 o = Some (r2, n2) ->
  r1 = r2 /\ n1 = n2 /\ exists a, r1 = Ok a.
Proof.
  intros Hn Hp H1 H2.
  destruct o as [[]|[]]; try discriminate Hn; destruct v1 as [?|l1|d1], v2 as [?|l2|d2];
    cbn [plain_nop plain_lop plain_dop] in H1, H2; try discriminate; cbn [pre_err] in Hp.
  - inversion H1; inversion H2; subst. eauto.
  - destruct v; try discriminate. inversion H1; inversion H2; subst. eauto.
  - inversion H1; inversion H2; subst. eauto.
  - destruct v; try discriminate. inversion H1; inversion H2; subst. eauto.
Qed.

Lemma res_of_no_exn r : no_exn (res_of r).
Proof. intros x. destruct r; discriminate. Qed.

Lemma load2_spec strat blen (Hb : blen_ok blen) op s oid o s1 x c :
  coherent_strong strat blen s -> nlookup oid (b_objs s) = Some o -> uniform_for s oid ->
  logical strat s (bo_file o) = Some c ->
  load2 strat blen op s oid = (s1, x) ->
  x = None /\ coherent_strong strat blen s1 /\ leq strat s s1 /\ ostable s s1
  /\ VEq (data_of s1 oid) c /\ uniform_for s1 oid.
Proof.
  intros CS Ho U Hc H.
  assert (Twice : forall s1 x,
            match load strat blen s oid with
            | (s1, Some x) => (s1, Some x)
            | (s1, None) => load strat blen s1 oid
            end = (s1, x) ->
            x = None /\ coherent_strong strat blen s1 /\ leq strat s s1 /\ ostable s s1
            /\ VEq (data_of s1 oid) c /\ uniform_for s1 oid).
  { clear H. intros s2 x2 H. destruct (load strat blen s oid) as [sa xa] eqn:Ea.
    destruct (load_spec strat blen Hb s oid o sa xa c CS Ho U Hc Ea) as (-> & CSa & La & Oa & Va & Ua).
    destruct (ostable_known _ _ oid Oa (ex_intro _ o Ho)) as [oa Hoa].
    assert (Fa : bo_file oa = bo_file o).
    { rewrite <- (known_get _ _ _ Hoa), <- (known_get _ _ _ Ho). apply (ostable_file _ _ oid Oa). }
    pose proof (La (bo_file o)) as Lf. rewrite Hc in Lf.
    destruct (logical strat sa (bo_file o)) as [ca|] eqn:Hca; [|destruct Lf]. cbn [lrel] in Lf.
    rewrite <- Fa in Hca.
    destruct (load_spec strat blen Hb sa oid oa s2 x2 ca CSa Hoa Ua Hca H) as (-> & CS2 & L2 & O2 & V2 & U2).
    split; [reflexivity|]. split; [exact CS2|]. split; [eapply leq_trans; eauto|].
    split; [eapply ostable_trans; eauto|]. split; [eapply VEq_trans; eauto|exact U2]. }
  unfold load2 in H. destruct op as [[]|[]];
    first [ apply (Twice _ _ H) | eapply load_spec; eauto ].
Qed.

Theorem op_transparent_aux strat blen (Hb : blen_ok blen) s oid p o s' r f c :
  coherent_strong strat blen s -> known_obj s oid -> uniform_for s oid -> f = bo_file (get_obj s oid) ->
  logical strat s f = Some c ->
  (forall v, In v (nop_vals_b o) -> wf_val v = true) ->
  (pre_err o <> None \/ (p = [] /\ nop_no_load o = true) -> plain_at p o c <> None) ->
  bstep_fn strat blen s (BOp oid p o) = (s', r) -> r <> BBad ->
  coherent_strong strat blen s' /\ no_exn r
  /\ exists j rp newp,
       VEq j c /\ plain_at p o j = Some (rp, newp) /\ r = res_of rp
       /\ (exists c', logical strat s' f = Some c' /\ VEq c' newp)
       /\ leq_except strat f s s'.
Proof.
  intros CS [ob Ho] U -> Hc Wa Hdef H Hr. pose proof (known_get _ _ _ Ho) as G. rewrite G in *.
  pose proof CS as (C & R & Hs).
  rewrite bop_unfold in H.
  destruct (pre_err o) as [e|] eqn:Hpe.
  - (* the argument is rejected before anything happens *)
    inversion H; subst s' r. clear H. split; [exact CS|]. split; [intros x; discriminate|].
    assert (Hdef' : plain_at p o c <> None) by (apply Hdef; left; discriminate).
    destruct (plain_at p o c) as [[rp newp]|] eqn:Hp; [|congruence].
    destruct (plain_at_pre_err o e Hpe p c rp newp Hp) as [-> ->].
    exists c, (Err e), c. split; [apply VEq_refl|]. split; [exact Hp|]. split; [reflexivity|].
    split; [exists c; split; [exact Hc|apply VEq_refl]|]. apply leq_leq_except. apply leq_refl.
  - destruct ((match p with [] => true | _ => false end) && nop_no_load o) eqn:Eroot.
    + (* root clear / reset: no load *)
      apply andb_true_iff in Eroot. destruct Eroot as [Ep Enl]. destruct p; [|discriminate]. clear Ep.
      destruct (apply_at [] o (data_of s oid)) as [[r0 d']|] eqn:Ea; [|inversion H; subst; congruence].
      destruct (apply_at_spec [] o (data_of s oid) r0 d' (data_of_wf s oid (c_wf _ _ _ C)) Wa Ea) as (n0 & Hn0 & Vd & Wd).
      assert (Hdef' : plain_at [] o c <> None) by (apply Hdef; right; split; [reflexivity|exact Enl]).
      destruct (plain_at [] o c) as [[rp newp]|] eqn:Hp; [|congruence].
      cbn [plain_at] in Hn0, Hp.
      destruct (plain_nop_no_load o _ _ _ _ _ _ Enl Hpe Hn0 Hp) as (-> & -> & a & ->).
      destruct (save strat blen (set_data s oid d') oid) as [s2 x] eqn:Es.
      destruct (save_spec strat blen Hb s oid ob d' s2 x CS Ho U Wd Es) as (-> & CS2 & Le & O2 & c' & Hc' & Vc').
      inversion H; subst s' r. clear H. split; [exact CS2|]. split; [first [apply res_of_no_exn|intros ?; discriminate]|].
      exists c, (Ok a), newp. split; [apply VEq_refl|]. split; [exact Hp|]. split; [reflexivity|].
      split; [exists c'; split; [exact Hc'|eapply VEq_trans; eauto]|exact Le].
    + (* load, operate, save *)
      destruct (load2 strat blen o s oid) as [s1 x1] eqn:El.
      destruct (load2_spec strat blen Hb o s oid ob s1 x1 c CS Ho U Hc El) as (-> & CS1 & L1 & O1 & Vj & U1).
      pose proof CS1 as (C1 & R1 & Hs1).
      set (j := data_of s1 oid) in *.
      assert (Wj : wf_val j = true) by (apply data_of_wf; exact (c_wf _ _ _ C1)).
      destruct (apply_at p o j) as [[r0 d']|] eqn:Ea; [|inversion H; subst; congruence].
      destruct (apply_at_spec p o j r0 d' Wj Wa Ea) as (newp & Hnp & Vd & Wd).
      destruct (ostable_known _ _ oid O1 (ex_intro _ ob Ho)) as [o1 Ho1].
      assert (F1 : bo_file o1 = bo_file ob).
      { rewrite <- (known_get _ _ _ Ho1), <- G. apply (ostable_file _ _ oid O1). }
      pose proof (L1 (bo_file ob)) as Lf. rewrite Hc in Lf.
      destruct (logical strat s1 (bo_file ob)) as [c1|] eqn:Hc1; [|destruct Lf]. cbn [lrel] in Lf.
      destruct (nop_is_read o) eqn:Erd.
      * inversion H; subst s' r. clear H. split; [exact CS1|]. split; [first [apply res_of_no_exn|intros ?; discriminate]|].
        exists j, r0, newp. split; [exact Vj|]. split; [exact Hnp|]. split; [reflexivity|].
        split; [|apply leq_leq_except; exact L1].
        exists c1. split; [exact Hc1|]. rewrite (plain_at_read o Erd p j r0 newp Hnp).
        eapply VEq_trans; [exact Lf|apply VEq_sym; exact Vj].
      * destruct (save strat blen (set_data s1 oid d') oid) as [s2 x] eqn:Es.
        destruct (save_spec strat blen Hb s1 oid o1 d' s2 x CS1 Ho1 U1 Wd Es) as (-> & CS2 & Le & O2 & c' & Hc' & Vc').
        rewrite F1 in Le, Hc'.
        inversion H; subst s' r. clear H. split; [exact CS2|]. split; [first [apply res_of_no_exn|intros ?; discriminate]|].
        exists j, r0, newp. split; [exact Vj|]. split; [exact Hnp|]. split; [reflexivity|].
        split; [exists c'; split; [exact Hc'|eapply VEq_trans; eauto]|].
        eapply leq_except_trans; [apply leq_leq_except; exact L1|exact Le].
Qed.
