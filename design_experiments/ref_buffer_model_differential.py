"""Throw-away reference model of the buffer machine (reading of the UNCHANGED code), dict roots, flat values.
Run differentially against the real classes on random well-nested programs."""
import json, os, sys, random, tempfile, copy
sys.path.insert(0, os.environ.get('REPO', '/repo'))
from synced_collections.backends.collection_json import BufferedJSONDict, MemoryBufferedJSONDict
from synced_collections.errors import BufferedError, MetadataError

def enc(v): return json.dumps(v).encode()

class MMeta(Exception):
    def __init__(self, f): self.f = f
class MBuf(Exception):
    def __init__(self, files): self.files = files

class Model:
    def __init__(self, strategy, default_cap):
        self.mem = strategy == 'mem'
        self.disk = {}          # f -> [content or None, stamp]
        self.buffer = {}        # f -> entry dict
        self.size = 0; self.cap = default_cap; self.stack = []; self.ctx = 0
        self.bcs = {}           # oid -> obj (insertion ordered)
        self.pending_cap = None
    # ---------- disk
    def read_disk(self, f):
        c = self.disk.get(f, [None, 0])[0]
        return None if c is None else copy.deepcopy(c)
    def stamp(self, f): return self.disk[f][1] if f in self.disk and self.disk[f][0] is not None else None
    def write_disk(self, f, v):
        st = self.disk.get(f, [None, 0])[1] + 1
        self.disk[f] = [copy.deepcopy(v), st]
    # ---------- objects
    def new(self, oid, f):
        return {'id': oid, 'f': f, 'data': {}, 'buffered': 0}
    def is_buffered(self, o): return o['buffered'] > 0 or self.ctx > 0
    def update(self, o, d):          # root-level in-place merge, flat values
        if d is None: return
        o['data'].update(d)           # existing keys keep position, new appended  (py: for key in data: set)
        for k in [k for k in o['data'] if k not in d]: del o['data'][k]
        # python dict.update keeps old order for existing keys; good enough (order not compared)
    def init_entry(self, o, modified=False):
        if self.mem:
            self.buffer[o['f']] = {'contents': o['data'], 'meta': self.stamp(o['f']), 'modified': modified}
        else:
            blob = enc(o['data'])
            self.buffer[o['f']] = {'contents': blob, 'hash': blob, 'meta': self.stamp(o['f'])}
            self.size += len(blob)
    def load_from_buffer_base(self, o):
        if o['f'] not in self.buffer:
            self.update(o, self.read_disk(o['f']))
            self.init_entry(o)
        self.bcs[o['id']] = o
    def load(self, o):
        if self.is_buffered(o):
            if self.mem:
                self.load_from_buffer_base(o)
                o['data'] = self.buffer[o['f']]['contents']
            else:
                self.load_from_buffer_base(o)
                blob = self.buffer[o['f']]['contents']
                if self.size > self.cap: self.flush_buffer(force=True)
                self.update(o, json.loads(blob))
        else:
            self.update(o, self.read_disk(o['f']))
    def save(self, o):
        if self.is_buffered(o): self.save_to_buffer(o)
        else: self.write_disk(o['f'], o['data'])
    def save_to_buffer(self, o):
        self.bcs[o['id']] = o
        f = o['f']
        if self.mem:
            if f in self.buffer:
                if not self.buffer[f]['modified']:
                    self.buffer[f]['modified'] = True; self.size += 1
            else:
                self.init_entry(o, modified=True); self.size += 1
        else:
            if f in self.buffer:
                blob = enc(o['data']); e = self.buffer[f]
                self.size += len(blob) - len(e['contents']); e['contents'] = blob
            else:
                self.init_entry(o)
                self.buffer[f]['hash'] = enc(self.read_disk(f))
        if self.size > self.cap: self.flush_buffer(force=True)
    def flush(self, o, force=False):
        f = o['f']
        if self.mem:
            if not self.is_buffered(o) or force:
                if f not in self.buffer:
                    if not force:
                        o['data'].clear(); self.update(o, self.read_disk(f))
                else:
                    e = self.buffer[f]
                    try:
                        if e['modified']:
                            if e['meta'] != self.stamp(f): raise MMeta(f)
                            self.write_disk(f, o['data'])
                    finally:
                        if e['modified']: self.size -= 1
                        if not force: del self.buffer[f]
                        else: e['meta'] = self.stamp(f); e['modified'] = False
            else:
                o['data'] = copy.deepcopy(o['data'])
        else:
            if not self.is_buffered(o) or force:
                if f not in self.buffer: return
                e = self.buffer[f]
                blob = enc(o['data'])
                try:
                    if blob != e['hash']:
                        if e['meta'] != self.stamp(f): raise MMeta(f)
                        self.update(o, json.loads(e['contents']))
                        self.write_disk(f, o['data'])
                finally:
                    del self.buffer[f]; self.size -= len(e['contents'])
    def flush_buffer(self, force=False):
        issues = {}; remaining = {}
        while self.bcs:
            oid, col = self.bcs.popitem()
            if self.is_buffered(col) and not force:
                remaining[oid] = col; continue
            elif force and self.mem:
                remaining[oid] = col
            try: self.flush(col, force=force)
            except MMeta as e: issues[col['f']] = e
        if not issues: self.bcs = remaining
        else: raise MBuf(sorted(issues))
    # ---------- API
    def set_cap(self, n):
        self.cap = n
        if n < self.size: self.flush_buffer(force=True)
    def enter_cls(self, cap):
        self.ctx += 1
        if cap is not None: self.stack.append(self.cap); self.set_cap(cap)
        else: self.stack.append(None)
    def exit_cls(self):
        self.ctx -= 1
        if self.ctx == 0: self.flush_buffer()       # may raise: then no restore (D21)
        orig = self.stack.pop()
        if orig is not None: self.set_cap(orig)
    def enter_obj(self, o): o['buffered'] += 1
    def exit_obj(self, o):
        o['buffered'] -= 1
        if o['buffered'] == 0: self.flush(o)
    def mutate(self, o, fn):
        self.load(o)
        try: return fn(o['data'])
        finally: self.save(o)
    def read(self, o):
        self.load(o); return copy.deepcopy(o['data'])
    def clear(self, o):
        o['data'] = {}; self.save(o)
    def reset(self, o, d):
        self.update(o, d); self.save(o)

# ------------------------------------------------------------------ differential driver
def run(seed, strategy, nprog=1, verbose=False):
    rnd = random.Random(seed)
    D = BufferedJSONDict if strategy == 'ser' else MemoryBufferedJSONDict
    dflt = D.get_buffer_capacity()
    tmp = tempfile.mkdtemp()
    files = [os.path.join(tmp, n) for n in ('f0.json', 'f1.json')]
    m = Model(strategy, dflt)
    def ext_write(f, v):
        with open(f, 'w') as fh: json.dump(v, fh)
        st = os.stat(f); bump[f] = bump.get(f, 0) + 1
        os.utime(f, ns=(st.st_atime_ns, st.st_mtime_ns + 10_000_000 * bump[f]))
        m.write_disk(f, v)
    bump = {}
    for f in files: ext_write(f, {'a': 0})
    binding = [0, 0, 1]
    objs = [D(files[b]) for b in binding]
    mobjs = [m.new(i, files[b]) for i, b in enumerate(binding)]
    log = []
    def disk(f):
        try:
            with open(f) as fh: return json.load(fh)
        except FileNotFoundError: return None
    def compare(tag):
        for f in files:
            if disk(f) != m.read_disk(f): raise AssertionError(f'{tag}: disk {os.path.basename(f)} impl={disk(f)} model={m.read_disk(f)}')
        if D.get_current_buffer_size() != m.size: raise AssertionError(f'{tag}: size impl={D.get_current_buffer_size()} model={m.size}')
        if D.get_buffer_capacity() != m.cap: raise AssertionError(f'{tag}: cap impl={D.get_buffer_capacity()} model={m.cap}')
        if sorted(D._buffer) != sorted(m.buffer): raise AssertionError(f'{tag}: buffer keys impl={sorted(map(os.path.basename, D._buffer))} model={sorted(map(os.path.basename, m.buffer))}')
    def both(tag, fi, fm):
        log.append(tag)
        try: ri = ('ok', fi())
        except KeyError: ri = ('KeyError',)
        except MetadataError as e: ri = ('Meta', os.path.basename(e.filename))
        except BufferedError as e: ri = ('Buffered', sorted(map(os.path.basename, e.files)))
        try: rm = ('ok', fm())
        except KeyError: rm = ('KeyError',)
        except MMeta as e: rm = ('Meta', os.path.basename(e.f))
        except MBuf as e: rm = ('Buffered', sorted(map(os.path.basename, e.files)))
        if ri != rm: raise AssertionError(f'{tag}: result impl={ri} model={rm}')
        compare(tag)
    def block(depth):
        for _ in range(rnd.randint(1, 5)):
            k = rnd.random()
            i = rnd.randrange(3); o, mo = objs[i], mobjs[i]; key = rnd.choice('abc'); val = rnd.choice([1, 2, 'x' * rnd.randint(0, 12)])
            if k < 0.22: both(f'o{i}[{key}]={val!r}', lambda: o.__setitem__(key, val), lambda: m.mutate(mo, lambda d: d.__setitem__(key, val)))
            elif k < 0.30: both(f'del o{i}[{key}]', lambda: o.__delitem__(key), lambda: m.mutate(mo, lambda d: d.__delitem__(key)))
            elif k < 0.45: both(f'o{i}()', lambda: o(), lambda: m.read(mo))
            elif k < 0.52: both(f'o{i}.clear()', lambda: o.clear(), lambda: m.clear(mo))
            elif k < 0.59: both(f'o{i}.reset({{{key}:{val!r}}})', lambda: o.reset({key: val}), lambda: m.reset(mo, {key: val}))
            elif k < 0.66: both(f'o{i}.update', lambda: o.update({key: val, 'z': 9}), lambda: m.mutate(mo, lambda d: d.update({key: val, 'z': 9})))
            elif k < 0.72:
                f = rnd.choice(files); v = {'ext': rnd.randint(0, 99)}
                log.append(f'EXT {os.path.basename(f)}={v}'); ext_write(f, v)
            elif k < 0.76:
                n = rnd.choice([0, 1, 2, 20, 40, 10**6])
                both(f'setcap {n}', lambda: D.set_buffer_capacity(n), lambda: m.set_cap(n))
            elif depth < 3 and k < 0.88:
                cap = rnd.choice([None, None, 0, 1, 2, 25, 60])
                def fi():
                    with D.buffer_backend(cap): log.append(f'{"  "*depth}enter cls cap={cap}'); block(depth + 1); log.append(f'{"  "*depth}exit cls')
                # run impl and model in lockstep: enter both, body, exit both
                log.append(f'enter cls cap={cap}')
                ctx = D.buffer_backend(cap)
                both('  enter_cls', lambda: ctx.__enter__(), lambda: m.enter_cls(cap))
                block(depth + 1)
                both('  exit_cls', lambda: ctx.__exit__(None, None, None), lambda: m.exit_cls())
            elif depth < 3:
                log.append(f'enter o{i}.buffered')
                both('  enter_obj', lambda: o.buffered.__enter__(), lambda: m.enter_obj(mo))
                block(depth + 1)
                both(f'  exit_obj o{i}', lambda: o.buffered.__exit__(None, None, None), lambda: m.exit_obj(mo))
    try:
        for _ in range(nprog): block(0)
        return None
    except AssertionError as e:
        return str(e), log
    finally:
        # reset class state for the next run
        D._buffer.clear(); D._buffered_collections.clear(); D._CURRENT_BUFFER_SIZE = 0
        D._BUFFER_CAPACITY = dflt; D._buffer_context._count = 0; D._buffer_context._original_buffer_capacitys.clear()

if __name__ == '__main__':
    strategy = sys.argv[1]; n = int(sys.argv[2])
    bad = 0
    for seed in range(n):
        r = run(seed, strategy)
        if r:
            bad += 1
            if bad <= 3:
                print(f'--- seed {seed}: {r[0]}'); print('    ' + '\n    '.join(r[1][-14:]))
    print(strategy, 'programs', n, 'mismatching', bad)
