(* MRIds.v — the in-place merge `upd` keeps node identities unique and below
   the fresh-id supply: every id of the result is an old id of the same node or
   a fresh one drawn from [nx, nx').  Holds for ANY data, also on error. *)
From Coq Require Import List ZArith NArith Bool Lia Arith.
From SC Require Import Model.Val Model.Plain Model.Valid Model.Class Model.Tree Proofs.TreeDefs Proofs.TreeLemmas.
Import ListNotations.

(* ------------------------------------------------------------------ *)
(* vocabulary                                                          *)
(* ------------------------------------------------------------------ *)

Definition lids (l : list node) : list nat := flat_map node_ids l.
Definition dids (d : list (key * node)) : list nat :=
  flat_map (fun kn : key * node => node_ids (snd kn)) d.

Definition ids_step (u : node -> nat -> node * nat * option err) : Prop :=
  forall ex nx ex' nx' e, u ex nx = (ex', nx', e) ->
    (forall i, In i (node_ids ex) -> i < nx) -> NoDup (node_ids ex) ->
    NoDup (node_ids ex') /\ (forall i, In i (node_ids ex') -> In i (node_ids ex) \/ nx <= i < nx') /\ nx <= nx'.

Lemma lids_cons n l : lids (n :: l) = node_ids n ++ lids l.
Proof. reflexivity. Qed.

Lemma dids_cons k n d : dids ((k, n) :: d) = node_ids n ++ dids d.
Proof. reflexivity. Qed.

Lemma node_ids_NL id c l : node_ids (NL id c l) = id :: lids l.
Proof. reflexivity. Qed.

Lemma node_ids_ND id c d : node_ids (ND id c d) = id :: dids d.
Proof. reflexivity. Qed.

(* ------------------------------------------------------------------ *)
(* small list facts                                                    *)
(* ------------------------------------------------------------------ *)

Lemma NoDup_app_inv' {A} (l1 l2 : list A) :
  NoDup (l1 ++ l2) -> NoDup l1 /\ NoDup l2 /\ (forall x, In x l1 -> ~ In x l2).
Proof.
  induction l1 as [|a l1 IH]; simpl; intros H.
  - split; [constructor|]. split; [exact H|]. intros x [].
  - inversion H as [|a' l' Hnin Hnd]; subst. destruct (IH Hnd) as [H1 [H2 H3]].
    split.
    + constructor; [|exact H1]. intros Hin. apply Hnin. apply in_or_app. left; exact Hin.
    + split; [exact H2|]. intros x [Hx|Hx] Hx2.
      * subst x. apply Hnin. apply in_or_app. right; exact Hx2.
      * apply (H3 x Hx Hx2).
Qed.

Lemma dids_In k n d i : In (k, n) d -> In i (node_ids n) -> In i (dids d).
Proof.
  intros Hin Hi. unfold dids. apply in_flat_map. exists (k, n). split; [exact Hin|exact Hi].
Qed.

Lemma dids_NoDup_In k n d : In (k, n) d -> NoDup (dids d) -> NoDup (node_ids n).
Proof.
  induction d as [|[k' v'] d IH]; simpl; intros Hin Hnd.
  - contradiction.
  - change (NoDup (node_ids v' ++ dids d)) in Hnd.
    apply NoDup_app_inv' in Hnd. destruct Hnd as [H1 [H2 _]].
    destruct Hin as [Hin|Hin].
    + inversion Hin; subst. exact H1.
    + apply IH; assumption.
Qed.

Lemma dids_filter (f : key * node -> bool) d :
  NoDup (dids d) ->
  NoDup (dids (filter f d)) /\ (forall i, In i (dids (filter f d)) -> In i (dids d)).
Proof.
  induction d as [|[k v] d IH]; intros Hnd.
  - simpl. split; [constructor|]. intros i [].
  - rewrite dids_cons in Hnd.
    apply NoDup_app_inv' in Hnd. destruct Hnd as [H1 [H2 H3]].
    destruct (IH H2) as [I1 I2].
    simpl filter. destruct (f (k, v)).
    + rewrite !dids_cons. split.
      * apply NoDup_app'; [exact H1|exact I1|].
        intros x Hx Hx2. apply (H3 x Hx). apply I2. exact Hx2.
      * intros i Hi. apply in_app_or in Hi. apply in_or_app.
        destruct Hi as [Hi|Hi]; [left; exact Hi|right; apply I2; exact Hi].
    + rewrite dids_cons. split; [exact I1|].
      intros i Hi. apply in_or_app. right. apply I2. exact Hi.
Qed.

(* ------------------------------------------------------------------ *)
(* dict_set                                                            *)
(* ------------------------------------------------------------------ *)

Lemma dict_set_ids d k n nx nx1 :
  NoDup (dids d) -> (forall i, In i (dids d) -> i < nx) -> NoDup (node_ids n) ->
  (forall i, In i (node_ids n) ->
     (exists ex, alookup k d = Some ex /\ In i (node_ids ex)) \/ nx <= i < nx1) ->
  NoDup (dids (dict_set d k n))
  /\ (forall i, In i (dids (dict_set d k n)) -> In i (dids d) \/ nx <= i < nx1).
Proof.
  induction d as [|[k' v'] d IH]; intros Hnd Hlt Hn Hsrc.
  - simpl dict_set. rewrite dids_cons. simpl. rewrite app_nil_r. split; [exact Hn|].
    intros i Hi. destruct (Hsrc i Hi) as [[ex [E _]]|Hf].
    + simpl in E. discriminate.
    + right; exact Hf.
  - rewrite dids_cons in Hnd, Hlt.
    destruct (NoDup_app_inv' _ _ Hnd) as [H1 [H2 H3]].
    simpl dict_set. simpl alookup in Hsrc. destruct (key_eqb k k') eqn:E.
    + rewrite !dids_cons. split.
      * apply NoDup_app'; [exact Hn|exact H2|].
        intros x Hx Hx2. destruct (Hsrc x Hx) as [[ex [Eex Hin]]|Hf].
        -- inversion Eex; subst ex. apply (H3 x Hin Hx2).
        -- assert (x < nx) by (apply Hlt; apply in_or_app; right; exact Hx2). lia.
      * intros i Hi. apply in_app_or in Hi. destruct Hi as [Hi|Hi].
        -- destruct (Hsrc i Hi) as [[ex [Eex Hin]]|Hf].
           ++ inversion Eex; subst ex. left. apply in_or_app. left; exact Hin.
           ++ right; exact Hf.
        -- left. apply in_or_app. right; exact Hi.
    + assert (Hlt2 : forall i, In i (dids d) -> i < nx).
      { intros i Hi. apply Hlt. apply in_or_app. right; exact Hi. }
      destruct (IH H2 Hlt2 Hn Hsrc) as [I1 I2].
      rewrite !dids_cons. split.
      * apply NoDup_app'; [exact H1|exact I1|].
        intros x Hx Hx2. destruct (I2 x Hx2) as [Hin|Hf].
        -- apply (H3 x Hx Hin).
        -- assert (x < nx) by (apply Hlt; apply in_or_app; left; exact Hx). lia.
      * intros i Hi. apply in_app_or in Hi. destruct Hi as [Hi|Hi].
        -- left. apply in_or_app. left; exact Hi.
        -- destruct (I2 i Hi) as [Hin|Hf].
           ++ left. apply in_or_app. right; exact Hin.
           ++ right; exact Hf.
Qed.

(* ------------------------------------------------------------------ *)
(* merge_one / upd_prefix / upd_entries, parameterised by the          *)
(* recursive function                                                  *)
(* ------------------------------------------------------------------ *)

Section UpdIds.
  Variable T : class_table.

  (* the `replace` branch of merge_one: ex0 is what is kept if validation fails *)
  Lemma replace_ids c wrapped nv (old : list nat) ex0 nx nx0 n nx1 e :
    nx <= nx0 -> NoDup (node_ids ex0) ->
    (forall i, In i (node_ids ex0) -> In i old \/ nx <= i < nx0) ->
    match validate (validators_of T c) wrapped with
    | Some e => (ex0, nx0, Some e)
    | None => let (n, nx1) := from_base T c nv nx0 in (n, nx1, None)
    end = (n, nx1, e) ->
    NoDup (node_ids n) /\ (forall i, In i (node_ids n) -> In i old \/ nx <= i < nx1) /\ nx <= nx1.
  Proof.
    intros Hle Hnd Hsrc H. destruct (validate (validators_of T c) wrapped) as [e0|].
    - inversion H; subst. split; [exact Hnd|]. split; [exact Hsrc|exact Hle].
    - pose proof (from_base_fresh T c nv nx0) as F.
      destruct (from_base T c nv nx0) as [n0 nx2]. simpl in F.
      inversion H; subst. destruct F as [F1 [F2 F3]].
      split; [exact F3|]. split; [|lia].
      intros i Hi. right. apply F2 in Hi. lia.
  Qed.

  Lemma merge_one_ids u c wrapped nv :
    ids_step (u nv) -> ids_step (merge_one T u c wrapped nv).
  Proof.
    intros Hu ex nx n nx1 e H Hlt Hnd. unfold merge_one in H. cbv beta zeta in H.
    destruct (skip_same nv ex).
    { inversion H; subst. split; [exact Hnd|]. split; [|lia]. intros i Hi; left; exact Hi. }
    destruct (node_is_container ex && negb (is_null nv)).
    - destruct (u nv ex nx) as [[ex' nx'] [e'|]] eqn:E.
      + destruct (Hu _ _ _ _ _ E Hlt Hnd) as [U1 [U2 U3]].
        destruct (err_is_value_error e').
        * eapply replace_ids; [exact U3|exact U1|exact U2|exact H].
        * inversion H; subst. split; [exact U1|]. split; [exact U2|exact U3].
      + inversion H; subst. exact (Hu _ _ _ _ _ E Hlt Hnd).
    - eapply replace_ids; [apply Nat.le_refl|exact Hnd| |exact H].
      intros i Hi; left; exact Hi.
  Qed.

  Lemma upd_prefix_ids u c dl :
    Forall (fun nv => ids_step (u nv)) dl ->
    forall l nx l' nx' e, upd_prefix T u c dl l nx = (l', nx', e) ->
      (forall i, In i (lids l) -> i < nx) -> NoDup (lids l) ->
      NoDup (lids l') /\ (forall i, In i (lids l') -> In i (lids l) \/ nx <= i < nx') /\ nx <= nx'.
  Proof.
    intros HF. induction HF as [|nv dl Hnv HF IH]; intros l nx l' nx' e H Hlt Hnd.
    - rewrite upd_prefix_nil in H. inversion H; subst.
      split; [constructor|]. split; [intros i []|lia].
    - destruct l as [|ex l].
      + rewrite upd_prefix_cons_nil in H.
        destruct (validate (validators_of T c) (VL (nv :: dl))) as [e0|].
        * inversion H; subst. split; [constructor|]. split; [intros i []|lia].
        * destruct (map_st (from_base T c) (nv :: dl) nx) as [tl nx1] eqn:E2.
          inversion H; subst. apply map_st_rel_intro in E2.
          destruct (map_st_rel_fresh _ node_ids _ _ _ _ E2) as [G1 [G2 G3]].
          { apply Forall_forall. intros a _ s. apply from_base_fresh. }
          split; [exact G3|]. split; [|exact G1].
          intros i Hi. right. apply G2. exact Hi.
      + rewrite upd_prefix_cons_cons in H. rewrite lids_cons in Hlt, Hnd.
        destruct (NoDup_app_inv' _ _ Hnd) as [H1 [H2 H3]].
        assert (Hlt1 : forall i, In i (node_ids ex) -> i < nx).
        { intros i Hi. apply Hlt. apply in_or_app. left; exact Hi. }
        assert (Hlt2 : forall i, In i (lids l) -> i < nx).
        { intros i Hi. apply Hlt. apply in_or_app. right; exact Hi. }
        destruct (merge_one T u c nv nv ex nx) as [[n nx1] [e1|]] eqn:E.
        * inversion H; subst.
          destruct (merge_one_ids u c nv nv Hnv _ _ _ _ _ E Hlt1 H1) as [M1 [M2 M3]].
          rewrite !lids_cons. split.
          -- apply NoDup_app'; [exact M1|exact H2|].
             intros x Hx Hx2. destruct (M2 x Hx) as [Hin|Hf].
             ++ apply (H3 x Hin Hx2).
             ++ apply Hlt2 in Hx2. lia.
          -- split; [|exact M3]. intros i Hi. apply in_app_or in Hi. destruct Hi as [Hi|Hi].
             ++ destruct (M2 i Hi) as [Hin|Hf].
                ** left. apply in_or_app. left; exact Hin.
                ** right; exact Hf.
             ++ left. apply in_or_app. right; exact Hi.
        * destruct (upd_prefix T u c dl l nx1) as [[l2 nx2] e2] eqn:E2.
          inversion H; subst.
          destruct (merge_one_ids u c nv nv Hnv _ _ _ _ _ E Hlt1 H1) as [M1 [M2 M3]].
          assert (Hlt3 : forall i, In i (lids l) -> i < nx1).
          { intros i Hi. apply Hlt2 in Hi. lia. }
          destruct (IH _ _ _ _ _ E2 Hlt3 H2) as [I1 [I2 I3]].
          rewrite !lids_cons. split.
          -- apply NoDup_app'; [exact M1|exact I1|].
             intros x Hx Hx2. destruct (M2 x Hx) as [Hin|Hf]; destruct (I2 x Hx2) as [Hin2|Hf2].
             ++ apply (H3 x Hin Hin2).
             ++ apply Hlt1 in Hin. lia.
             ++ apply Hlt2 in Hin2. lia.
             ++ lia.
          -- split; [|lia]. intros i Hi. apply in_app_or in Hi. destruct Hi as [Hi|Hi].
             ++ destruct (M2 i Hi) as [Hin|Hf].
                ** left. apply in_or_app. left; exact Hin.
                ** right; lia.
             ++ destruct (I2 i Hi) as [Hin|Hf].
                ** left. apply in_or_app. right; exact Hin.
                ** right; lia.
  Qed.

  Lemma upd_entries_ids u c dd :
    Forall (fun kv : key * val => ids_step (u (snd kv))) dd ->
    forall d nx d' nx' e, upd_entries T u c dd d nx = (d', nx', e) ->
      (forall i, In i (dids d) -> i < nx) -> NoDup (dids d) ->
      NoDup (dids d') /\ (forall i, In i (dids d') -> In i (dids d) \/ nx <= i < nx') /\ nx <= nx'.
  Proof.
    intros HF. induction HF as [|[k nv] dd Hnv HF IH]; intros d nx d' nx' e H Hlt Hnd.
    - rewrite upd_entries_nil in H. inversion H; subst.
      split; [exact Hnd|]. split; [|lia]. intros i Hi; left; exact Hi.
    - rewrite upd_entries_cons in H. simpl in Hnv.
      (* one step: the node n stored under k and the supply nx1 after it *)
      assert (Step : forall n nx1,
                 nx <= nx1 -> NoDup (node_ids n) ->
                 (forall i, In i (node_ids n) ->
                    (exists ex, alookup k d = Some ex /\ In i (node_ids ex)) \/ nx <= i < nx1) ->
                 NoDup (dids (dict_set d k n))
                 /\ (forall i, In i (dids (dict_set d k n)) -> In i (dids d) \/ nx <= i < nx1)
                 /\ (forall i, In i (dids (dict_set d k n)) -> i < nx1)).
      { intros n nx1 Hle Hn Hsrc.
        destruct (dict_set_ids d k n nx nx1 Hnd Hlt Hn Hsrc) as [D1 D2].
        split; [exact D1|]. split; [exact D2|].
        intros i Hi. destruct (D2 i Hi) as [Hin|Hf]; [apply Hlt in Hin; lia|lia]. }
      destruct (alookup k d) as [ex|] eqn:Ek.
      + pose proof (alookup_In _ _ _ Ek) as Hin.
        assert (Hltex : forall i, In i (node_ids ex) -> i < nx).
        { intros i Hi. apply Hlt. eapply dids_In; eauto. }
        pose proof (dids_NoDup_In _ _ _ Hin Hnd) as Hndex.
        destruct (merge_one T u c (VD [(k, nv)]) nv ex nx) as [[n nx1] e1] eqn:E.
        destruct (merge_one_ids u c (VD [(k, nv)]) nv Hnv _ _ _ _ _ E Hltex Hndex) as [M1 [M2 M3]].
        destruct (Step n nx1 M3 M1) as [D1 [D2 D3]].
        { intros i Hi. destruct (M2 i Hi) as [Hi2|Hf]; [left; eauto|right; exact Hf]. }
        destruct e1 as [e1|].
        * inversion H; subst. split; [exact D1|]. split; [exact D2|exact M3].
        * destruct (IH _ _ _ _ _ H D3 D1) as [I1 [I2 I3]].
          split; [exact I1|]. split; [|lia].
          intros i Hi. destruct (I2 i Hi) as [Hi2|Hf].
          -- destruct (D2 i Hi2) as [Hi3|Hf]; [left; exact Hi3|right; lia].
          -- right; lia.
      + destruct (validate (validators_of T c) (VD [(k, nv)])) as [e0|].
        * inversion H; subst. split; [exact Hnd|]. split; [|lia]. intros i Hi; left; exact Hi.
        * pose proof (from_base_fresh T c nv nx) as F.
          destruct (from_base T c nv nx) as [n nx1]. simpl in F. destruct F as [F1 [F2 F3]].
          destruct (Step n nx1 F1 F3) as [D1 [D2 D3]].
          { intros i Hi. right. apply F2. exact Hi. }
          destruct (IH _ _ _ _ _ H D3 D1) as [I1 [I2 I3]].
          split; [exact I1|]. split; [|lia].
          intros i Hi. destruct (I2 i Hi) as [Hi2|Hf].
          -- destruct (D2 i Hi2) as [Hi3|Hf]; [left; exact Hi3|right; lia].
          -- right; lia.
  Qed.

  Lemma upd_ids_all data : ids_step (upd T data).
  Proof.
    assert (Same : forall (ex : node) (nx : nat) ex' nx' (e : option err),
               (ex, nx, Some EValue) = (ex', nx', e) ->
               NoDup (node_ids ex) ->
               NoDup (node_ids ex')
               /\ (forall i, In i (node_ids ex') -> In i (node_ids ex) \/ nx <= i < nx') /\ nx <= nx').
    { intros ex nx ex' nx' e H Hnd. inversion H; subst.
      split; [exact Hnd|]. split; [|lia]. intros i Hi; left; exact Hi. }
    induction data as [s|dl IH|dd IH] using val_ind2; intros ex nx ex' nx' e H Hlt Hnd.
    - rewrite upd_mismatch in H.
      + eapply Same; eauto.
      + destruct ex; simpl; auto; left; discriminate.
    - destruct ex as [v|id c l|id c d].
      + rewrite upd_mismatch in H; [|right; reflexivity]. eapply Same; eauto.
      + rewrite upd_NL_VL in H.
        destruct (upd_prefix T (fun v => upd T v) c dl l nx) as [[l' nx2] e2] eqn:E.
        inversion H; subst. rewrite node_ids_NL in *.
        inversion Hnd as [|a l0 Hnin Hnd2]; subst.
        assert (Hlt2 : forall i, In i (lids l) -> i < nx).
        { intros i Hi. apply Hlt. right; exact Hi. }
        destruct (upd_prefix_ids (fun v => upd T v) c dl IH _ _ _ _ _ E Hlt2 Hnd2) as [P1 [P2 P3]].
        split.
        * constructor; [|exact P1]. intros Hin. destruct (P2 id Hin) as [Hi|Hf].
          -- contradiction.
          -- assert (id < nx) by (apply Hlt; left; reflexivity). lia.
        * split; [|exact P3]. intros i [Hi|Hi].
          -- left; left; exact Hi.
          -- destruct (P2 i Hi) as [Hi2|Hf]; [left; right; exact Hi2|right; exact Hf].
      + rewrite upd_mismatch in H; [|left; discriminate]. eapply Same; eauto.
    - destruct ex as [v|id c l|id c d].
      + rewrite upd_mismatch in H; [|right; reflexivity]. eapply Same; eauto.
      + rewrite upd_mismatch in H; [|left; discriminate]. eapply Same; eauto.
      + rewrite upd_ND_VD in H.
        destruct (upd_entries T (fun v => upd T v) c dd d nx) as [[d' nx2] e2] eqn:E.
        rewrite node_ids_ND in Hlt, Hnd.
        inversion Hnd as [|a l0 Hnin Hnd2]; subst.
        assert (Hlt2 : forall i, In i (dids d) -> i < nx).
        { intros i Hi. apply Hlt. right; exact Hi. }
        destruct (upd_entries_ids (fun v => upd T v) c dd IH _ _ _ _ _ E Hlt2 Hnd2) as [P1 [P2 P3]].
        assert (Hid : id < nx) by (apply Hlt; left; reflexivity).
        destruct e2 as [e2|]; inversion H; subst; rewrite !node_ids_ND.
        * split.
          -- constructor; [|exact P1]. intros Hin. destruct (P2 id Hin) as [Hi|Hf]; [contradiction|lia].
          -- split; [|exact P3]. intros i [Hi|Hi].
             ++ left; left; exact Hi.
             ++ destruct (P2 i Hi) as [Hi2|Hf]; [left; right; exact Hi2|right; exact Hf].
        * unfold keep_keys.
          destruct (dids_filter
                      (fun kn : key * node => match alookup (fst kn) dd with Some _ => true | None => false end)
                      d' P1) as [K1 K2].
          split.
          -- constructor; [|exact K1]. intros Hin. apply K2 in Hin.
             destruct (P2 id Hin) as [Hi|Hf]; [contradiction|lia].
          -- split; [|exact P3]. intros i [Hi|Hi].
             ++ left; left; exact Hi.
             ++ apply K2 in Hi.
                destruct (P2 i Hi) as [Hi2|Hf]; [left; right; exact Hi2|right; exact Hf].
  Qed.
End UpdIds.

(* ------------------------------------------------------------------ *)
(* main theorem                                                        *)
(* ------------------------------------------------------------------ *)

Theorem upd_ids_r T data n nx n' nx' e :
  upd T data n nx = (n', nx', e) ->
  (forall i, In i (node_ids n) -> i < nx) -> NoDup (node_ids n) ->
  NoDup (node_ids n') /\ (forall i, In i (node_ids n') -> i < nx') /\ nx <= nx'.
Proof.
  intros H Hlt Hnd.
  destruct (upd_ids_all T data _ _ _ _ _ H Hlt Hnd) as [A1 [A2 A3]].
  split; [exact A1|]. split; [|exact A3].
  intros i Hi. destruct (A2 i Hi) as [Hin|Hf].
  - apply Hlt in Hin. lia.
  - lia.
Qed.

Print Assumptions upd_ids_r.
