(* BufferDefs.v — vocabulary used to STATE the theorems about Buffer.v (C05, C06, C07, C15, C17). *)
From Coq Require Import List ZArith NArith Bool Lia.
From SC Require Import Model.Val Model.Plain Model.Ops Model.Buffer Proofs.TreeDefs.
Import ListNotations.
Local Open Scope Z_scope.

Section Defs.
  Variable strat : strategy.
  Variable blen : val -> Z.

  Definition heap_at (s : bstate) (loc : nat) : val :=
    match nlookup loc (b_heap s) with Some v => v | None => VD [] end.

  (* what the buffer holds for an entry *)
  Definition entry_content (s : bstate) (e : entry) : val :=
    match strat with Ser => e_val e | Shm => heap_at s (e_loc e) end.
  Definition entry_modified (s : bstate) (e : entry) : bool :=
    match strat with Ser => negb (veq_text (e_val e) (e_hash e)) | Shm => e_mod e end.

  (* the logical content of a file: its buffered copy if there is one, else what is on disk *)
  Definition logical (s : bstate) (f : nat) : option val :=
    match nlookup f (b_buffer s) with
    | Some e => Some (entry_content s e)
    | None => read_disk s f
    end.

  (* ---- C15: accounting ---- *)
  Definition expected_size (s : bstate) : Z :=
    match strat with
    | Ser => fold_right (fun (fe : nat * entry) acc => blen (e_val (snd fe)) + acc) 0 (b_buffer s)
    | Shm => fold_right (fun (fe : nat * entry) acc => (if e_mod (snd fe) then 1 else 0) + acc) 0 (b_buffer s)
    end.
  Definition acct (s : bstate) : Prop :=
    b_size s = expected_size s /\ NoDup (map fst (b_buffer s)).

  (* every buffered file has a registered holder that is currently buffered *)
  Definition reg_inv (s : bstate) : Prop :=
    forall f e, nlookup f (b_buffer s) = Some e ->
      exists oid, In oid (b_bcs s) /\ bo_file (get_obj s oid) = f /\ is_buffered s oid = true.

  Definition nobody_buffered (s : bstate) : Prop :=
    b_ctx s = 0%nat /\ forall oid o, nlookup oid (b_objs s) = Some o -> bo_buf o = 0%nat.

  (* capacities given by the user are not negative *)
  Definition op_caps_ok (op : bop) : Prop :=
    match op with
    | BEnterCls (Some c) => 0 <= c
    | BSetCap n => 0 <= n
    | _ => True
    end.
  (* objects are created before they are used, once, and the stack of saved capacities holds no negatives *)
  Definition stack_ok (s : bstate) : Prop :=
    0 <= b_cap s /\ forall c, In (Some c) (b_stack s) -> 0 <= c.

  (* ---- C17 / C07: nothing modified ---- *)
  Definition clean_entries (s : bstate) : Prop :=
    forall f e, nlookup f (b_buffer s) = Some e -> entry_modified s e = false.

  Definition bop_is_readonly (op : bop) : bool :=
    match op with
    | BOp _ _ o => nop_is_read o
    | BEnterObj _ | BExitObj _ | BEnterCls _ | BExitCls | BSetCap _ | BNew _ _ _ => true
    | BExt _ _ => false
    end.

  (* ---- well-nested context structure (for capacity restoration) ---- *)
  Fixpoint ctx_balanced (ops : list bop) (depth : nat) : bool :=
    match ops with
    | [] => Nat.eqb depth 0
    | BEnterCls _ :: r => ctx_balanced r (S depth)
    | BExitCls :: r => match depth with O => false | S d => ctx_balanced r d end
    | _ :: r => ctx_balanced r depth
    end.
  Definition no_setcap_at_depth0 (ops : list bop) : Prop :=   (* set_buffer_capacity is a permanent setting *)
    forall pre n post, ops = pre ++ BSetCap n :: post -> ctx_balanced pre 0 = false.

  Definition brun (ops : list bop) (s : bstate) : bstate :=
    fold_left (fun st op => fst (bstep_fn strat blen st op)) ops s.

  (* ---- C05 / C06: coherence of the buffered state when nobody else writes the files ---- *)
  Definition values_wf (s : bstate) : Prop :=
    (forall f v st, nlookup f (b_files s) = Some (v, st) -> wf_val v = true)
    /\ (forall l v, nlookup l (b_heap s) = Some v -> wf_val v = true)
    /\ (forall f e, nlookup f (b_buffer s) = Some e -> wf_val (e_val e) = true /\ wf_val (e_hash e) = true).

  Definition coherent (s : bstate) : Prop :=
    acct s /\ reg_inv s /\ stack_ok s /\ b_size s <= b_cap s /\ values_wf s
    (* no outside change since the file entered the buffer, and an unmodified entry equals the disk *)
    /\ (forall f e, nlookup f (b_buffer s) = Some e ->
          e_meta e = stamp s f
          /\ exists d, read_disk s f = Some d
             /\ (entry_modified s e = false -> VEq (entry_content s e) d))
    (* shared memory: a registered, buffered holder of a buffered file points at the shared container *)
    /\ (strat = Shm -> forall oid f e, In oid (b_bcs s) -> is_buffered s oid = true ->
          bo_file (get_obj s oid) = f -> nlookup f (b_buffer s) = Some e -> True).

  (* the objects bound to the file of [oid] are in the same buffered state as far as the buffer is concerned:
     either [oid] is buffered, or its file is not in the buffer *)
  Definition uniform_for (s : bstate) (oid : nat) : Prop :=
    is_buffered s oid = true \/ nlookup (bo_file (get_obj s oid)) (b_buffer s) = None.

  Definition known_obj (s : bstate) (oid : nat) : Prop := exists o, nlookup oid (b_objs s) = Some o.
End Defs.
