(* C15 — Buffer size accounting is exact, bounded by capacity, and returns to zero.  Property theorems only. *)
From Coq Require Import List Bool ZArith.
From SC Require Import Model.Val Model.Ops Model.Buffer Proofs.TreeDefs Proofs.BufferDefs Proofs.BufferInv Corr.KBuf.
Import ListNotations.
Local Open Scope Z_scope.

(* after ANY sequence of operations (several files and objects, any nesting of contexts, capacity changes,
   forced flushes, flushes that raise, outside writes), for both strategies and ANY length function:
   the reported size equals the total encoded length of the buffered files (serialized strategy) / the
   number of buffered files with unflushed modifications (shared-memory strategy) *)
Theorem C15_size_exact : forall strat blen ops s,
  acct strat blen s -> acct strat blen (brun strat blen ops s).
Proof. exact run_acct. Qed.
Print Assumptions C15_size_exact.

Theorem C15_size_exact_initially : forall strat blen cap, acct strat blen (b_init cap).
Proof. exact acct_init. Qed.
Print Assumptions C15_size_exact_initially.

(* it never exceeds the configured capacity once an operation has ended (capacities below one document
   included: a forced flush leaves size 0) *)
Theorem C15_bounded : forall strat blen s op,
  (forall oid f k, op = BNew oid f k -> nlookup oid (b_objs s) = None) ->
  acct strat blen s -> reg_inv s -> stack_ok s -> op_caps_ok op -> (b_size s <= b_cap s)%Z ->
  (forall v, 0 <= blen v)%Z ->
  let s' := fst (bstep_fn strat blen s op) in (b_size s' <= b_cap s')%Z /\ stack_ok s'.
Proof. exact step_bounded. Qed.
Print Assumptions C15_bounded.

(* the invariant C15_bounded and C15_zero_outside rest on: every buffered file has a registered, buffered holder *)
Theorem C15_holders_invariant : forall strat blen s op,
  (forall oid f k, op = BNew oid f k -> nlookup oid (b_objs s) = None) ->
  bcs_known s -> NoDup (map fst (b_buffer s)) ->
  reg_inv s -> reg_inv (fst (bstep_fn strat blen s op)).
Proof. exact step_reg_known. Qed.
Print Assumptions C15_holders_invariant.

(* it is 0, and the buffer is empty, whenever no buffered context is active *)
Theorem C15_zero_outside : forall strat blen s,
  acct strat blen s -> reg_inv s -> nobody_buffered s -> b_buffer s = [] /\ b_size s = 0%Z.
Proof. exact zero_outside. Qed.
Print Assumptions C15_zero_outside.

(* a capacity given to a backend-wide context is restored when that context exits — whatever happens inside
   (nested contexts, forced flushes, an exit flush that raises) *)
Theorem C15_capacity_restored : forall strat blen c body s,
  ctx_balanced body 0 = true ->
  b_cap (brun strat blen (BEnterCls (Some c) :: body ++ [BExitCls]) s) = b_cap s
  /\ b_stack (brun strat blen (BEnterCls (Some c) :: body ++ [BExitCls]) s) = b_stack s.
Proof. exact capacity_restored_some. Qed.
Print Assumptions C15_capacity_restored.

(* general form (a context without a capacity: set_buffer_capacity inside it must itself be inside some
   capacity-carrying context, else it is a permanent setting by the user) *)
Theorem C15_capacity_restored_general : forall strat blen cap body s,
  ctx_balanced body 0 = true -> setcap_guarded body [has_cap cap] = true ->
  b_cap (brun strat blen (BEnterCls cap :: body ++ [BExitCls]) s) = b_cap s
  /\ b_stack (brun strat blen (BEnterCls cap :: body ++ [BExitCls]) s) = b_stack s.
Proof. exact capacity_restored. Qed.
Print Assumptions C15_capacity_restored_general.

(* SOURCE TIE (Gen/Contexts.v, regenerated from /repo's source on every run): `_FileBufferedContext.__exit__` on top of
   `_CounterFuncContext.__exit__` has the shape the buffer model implements for BExitCls - count down and flush at zero,
   THEN (in a finally: also when the flush raised) pop the saved capacity and restore it if one was saved; and
   `__enter__` pushes the old capacity exactly when one was given. *)
From SC Require Import Model.Ctx Gen.Contexts.
Theorem C15_capacity_context_exit_is_the_source :
  cprog_eqb (gen_cap_exit gen_counter_exit) (model_cap_exit model_counter_exit) = true.
Proof. exact gen_cap_exit_is_model. Qed.
Print Assumptions C15_capacity_context_exit_is_the_source.
Theorem C15_capacity_context_enter_is_the_source :
  cprog_eqb (gen_cap_enter CCountUp) (model_cap_enter CCountUp) = true.
Proof. exact gen_cap_enter_is_model. Qed.
Print Assumptions C15_capacity_context_enter_is_the_source.
Theorem C15_restore_runs_on_both_paths : forall parent raises tr,
  crun (model_cap_exit parent) raises tr -> In (CSeq CPop CRestoreIfSome) tr.
Proof. exact cap_exit_always_restores. Qed.
Print Assumptions C15_restore_runs_on_both_paths.
