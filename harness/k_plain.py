"""K-plain: Plain.v / Ops.v (the SPEC of C03) against CPython's built-in list and dict."""
import copy
from common import *
from gen import G, apply_lop, apply_dop

HEADER = "From Coq Require Import List ZArith NArith.\nFrom SC Require Import Model.Val Model.Plain Model.Ops Corr.KPlain.\nImport ListNotations.\n"


def make_cases(seed, n):
    g = G(seed)
    cases, descr = [], []
    stats = {}
    for i in range(n):
        if g.r.random() < 0.55:
            l = g.vlist(2, 6, small=g.r.random() < 0.5)
            op = g.list_read(l) if g.r.random() < 0.4 else g.list_mut(l)
            work = copy.deepcopy(l)
            try:
                r = ("ok", copy.deepcopy(apply_lop(work, copy.deepcopy(op))))
            except Exception as e:  # noqa
                r = ("err", err_class(e))
            try:
                cases.append(f"PL {c_vlist(l)} {c_lop(op)} {c_res(*r)} {c_vlist(work)}")
            except ValueError:
                continue
            descr.append({"list": jsonable(l), "op": jsonable(op), "result": jsonable(r), "after": jsonable(work)})
        else:
            d = g.vdict(2, 5, small=g.r.random() < 0.5)
            op = g.dict_read(d) if g.r.random() < 0.4 else g.dict_mut(d)
            if op[0] == "DUpdate" and not isinstance(op[1], (dict, list)):
                op = ("DUpdate", {})
            work = copy.deepcopy(d)
            try:
                r = ("ok", copy.deepcopy(apply_dop(work, copy.deepcopy(op))))
            except Exception as e:  # noqa
                r = ("err", err_class(e))
            cases.append(f"PD {c_vdict(d)} {c_dop(op)} {c_res(*r)} {c_vdict(work)}")
            descr.append({"dict": jsonable(d), "op": jsonable(op), "result": jsonable(r), "after": jsonable(work)})
        key = op[0] + ("!" + r[1] if r[0] == "err" else "")
        stats[key] = stats.get(key, 0) + 1
    return cases, descr, stats


def run(seed, n):
    cases, descr, stats = make_cases(seed, n)
    bad = run_case_files(HEADER, "pcase", "check_pcase", cases)
    return {"n": len(cases), "failing": [descr[i] for i in bad[:5]], "nfail": len(bad), "stats": stats,
            "sample": descr[:3]}


if __name__ == "__main__":
    import sys, time
    t = time.time()
    out = run(int(sys.argv[1]) if len(sys.argv) > 1 else 1, int(sys.argv[2]) if len(sys.argv) > 2 else 2000)
    print(json.dumps({k: out[k] for k in ("n", "nfail", "failing")}, indent=1, default=repr)[:3000])
    print(sorted(out["stats"].items()))
    print("wall", time.time() - t)
