(* MachineInv.v — C11 / C18 as an invariant of the unbuffered machine: whatever
   operation is issued, every object's tree stays a clean, well-formed member of
   its family, and what is in the backend stays valid. *)
From Coq Require Import List ZArith NArith Bool Lia Arith Permutation.
From SC Require Import Model.Val Model.Plain Model.Ops Model.Valid Model.Class Model.Tree Model.Machine.
From SC Require Import Proofs.TreeDefs Proofs.TreeIds Proofs.MachineDefs.
Import ListNotations.

(* ------------------------------------------------------------------ *)
(* class table                                                         *)
(* ------------------------------------------------------------------ *)

Lemma table_ok_cls T c : table_ok T = true -> c < length T -> cls_ok T (get_cls T c) = true.
Proof.
  intros H Hc. unfold table_ok in H. rewrite forallb_forall in H. apply H.
  unfold get_cls. apply nth_In. exact Hc.
Qed.

(* every validator list that requires JSON leaves or dot-free keys also requires string keys *)
Lemma lang3_str_keys vs :
  (l_json_leaves (lang3 vs) = true \/ l_no_dots (lang3 vs) = true) -> l_str_keys (lang3 vs) = true.
Proof.
  destruct vs as [|n vs]; simpl.
  - intros [H|H]; discriminate.
  - intros _. destruct n; reflexivity.
Qed.

Lemma cls_facts T c :
  table_ok T = true -> c < length T ->
  in_backend T (backend_of T c) c = true
  /\ backend_has_both T (backend_of T c) = true
  /\ uniform_backend T (backend_of T c) (lang_of T c) = true
  /\ (c_kind (get_cls T c) = KList \/ c_kind (get_cls T c) = KDict).
Proof.
  intros HT Hc. pose proof (table_ok_cls T c HT Hc) as H. unfold cls_ok in H.
  apply andb_true_iff in H. destruct H as [H H3]. apply andb_true_iff in H. destruct H as [H1 H2].
  split; [|split; [|split]].
  - apply in_backend_spec. split; [exact Hc|reflexivity].
  - exact H1.
  - exact H2.
  - apply orb_true_iff in H3. destruct H3 as [H3|H3]; apply kind_eqb_eq in H3; auto.
Qed.

(* ------------------------------------------------------------------ *)
(* finite maps                                                         *)
(* ------------------------------------------------------------------ *)

Lemma nlookup_nset {A} k k' (v : A) l :
  nlookup k' (nset k v l) = if Nat.eqb k' k then Some v else nlookup k' l.
Proof.
  induction l as [|[k0 v0] l IH]; simpl.
  - destruct (Nat.eqb k' k); reflexivity.
  - destruct (Nat.eqb k k0) eqn:E; simpl.
    + apply Nat.eqb_eq in E. subst k0. destruct (Nat.eqb k' k); reflexivity.
    + destruct (Nat.eqb k' k0) eqn:E0.
      * apply Nat.eqb_eq in E0. subst k0. rewrite Nat.eqb_sym, E. reflexivity.
      * exact IH.
Qed.

Lemma nlookup_None_keys {A} k (l : list (nat * A)) : ~ In k (map fst l) -> nlookup k l = None.
Proof.
  induction l as [|[k0 v0] l IH]; simpl; intros H.
  - reflexivity.
  - destruct (Nat.eqb k k0) eqn:E.
    + apply Nat.eqb_eq in E. subst. exfalso. apply H. left; reflexivity.
    + apply IH. intros Hin. apply H. right; exact Hin.
Qed.

Lemma nlookup_nremove {A} k k' (l : list (nat * A)) :
  NoDup (map fst l) ->
  nlookup k' (nremove k l) = if Nat.eqb k' k then None else nlookup k' l.
Proof.
  induction l as [|[k0 v0] l IH]; simpl; intros Hn.
  - destruct (Nat.eqb k' k); reflexivity.
  - inversion Hn as [|? ? Hnin Hn']; subst.
    destruct (Nat.eqb k k0) eqn:E; simpl.
    + apply Nat.eqb_eq in E. subst k0. destruct (Nat.eqb k' k) eqn:E1.
      * apply Nat.eqb_eq in E1. subst. apply nlookup_None_keys. exact Hnin.
      * reflexivity.
    + destruct (Nat.eqb k' k0) eqn:E0.
      * apply Nat.eqb_eq in E0. subst k0. rewrite Nat.eqb_sym, E. reflexivity.
      * apply IH. exact Hn'.
Qed.

Lemma nset_keys {A} k (v : A) l x : In x (map fst (nset k v l)) <-> x = k \/ In x (map fst l).
Proof.
  induction l as [|[k0 v0] l IH]; simpl.
  - split; intros [H|H]; auto.
  - destruct (Nat.eqb k k0) eqn:E; simpl.
    + apply Nat.eqb_eq in E. subst k0. split; intros H; intuition.
    + rewrite IH. split; intros H; intuition.
Qed.

Lemma nset_nodup {A} k (v : A) l : NoDup (map fst l) -> NoDup (map fst (nset k v l)).
Proof.
  induction l as [|[k0 v0] l IH]; simpl; intros Hn.
  - constructor; [intros []|constructor].
  - inversion Hn as [|? ? Hnin Hn']; subst.
    destruct (Nat.eqb k k0) eqn:E; simpl.
    + apply Nat.eqb_eq in E. subst k0. constructor; assumption.
    + constructor; [|auto]. rewrite nset_keys. intros [H|H].
      * subst. rewrite Nat.eqb_refl in E. discriminate.
      * contradiction.
Qed.

Lemma nremove_keys {A} k (l : list (nat * A)) x : In x (map fst (nremove k l)) -> In x (map fst l).
Proof.
  induction l as [|[k0 v0] l IH]; simpl; intros H.
  - exact H.
  - destruct (Nat.eqb k k0); simpl in *; [right; exact H|]. destruct H; auto.
Qed.

Lemma nremove_nodup {A} k (l : list (nat * A)) : NoDup (map fst l) -> NoDup (map fst (nremove k l)).
Proof.
  induction l as [|[k0 v0] l IH]; simpl; intros Hn.
  - constructor.
  - inversion Hn as [|? ? Hnin Hn']; subst.
    destruct (Nat.eqb k k0); simpl; [exact Hn'|].
    constructor; [|auto]. intros H. apply nremove_keys in H. contradiction.
Qed.

(* ------------------------------------------------------------------ *)
(* sub-multisets: what the list operations do to the children          *)
(* ------------------------------------------------------------------ *)

Definition sub {A} (l' l : list A) : Prop := exists rest, Permutation (l' ++ rest) l.

Lemma sub_refl {A} (l : list A) : sub l l.
Proof. exists []. rewrite app_nil_r. apply Permutation_refl. Qed.

Lemma sub_perm {A} (l' l m : list A) : sub l' l -> Permutation l m -> sub l' m.
Proof. intros [r H] P. exists r. eapply Permutation_trans; eauto. Qed.

Lemma sub_perm_l {A} (l' l'' l : list A) : Permutation l'' l' -> sub l' l -> sub l'' l.
Proof.
  intros P [r H]. exists r. eapply Permutation_trans; [|exact H].
  apply Permutation_app_tail. exact P.
Qed.

Lemma sub_trans {A} (a b c : list A) : sub a b -> sub b c -> sub a c.
Proof.
  intros [r1 H1] [r2 H2]. exists (r1 ++ r2). rewrite app_assoc.
  eapply Permutation_trans; [|exact H2]. apply Permutation_app_tail. exact H1.
Qed.

Lemma sub_nil {A} (l : list A) : sub [] l.
Proof. exists l. apply Permutation_refl. Qed.

Lemma sub_cons {A} (a : A) l' l : sub l' l -> sub (a :: l') (a :: l).
Proof. intros [r H]. exists r. simpl. constructor. exact H. Qed.

Lemma sub_skip {A} (a : A) l' l : sub l' l -> sub l' (a :: l).
Proof.
  intros [r H]. exists (a :: r). eapply Permutation_trans; [apply Permutation_sym, Permutation_middle|].
  constructor. exact H.
Qed.

Lemma sub_app_r {A} (l' l m : list A) : sub l' l -> sub l' (l ++ m).
Proof.
  intros [r H]. exists (r ++ m). rewrite app_assoc. apply Permutation_app_tail. exact H.
Qed.

Lemma sub_app_l {A} (l' l m : list A) : sub l' l -> sub l' (m ++ l).
Proof. intros H. eapply sub_perm; [apply sub_app_r; exact H|apply Permutation_app_comm]. Qed.

Lemma sub_app {A} (a a' b b' : list A) : sub a a' -> sub b b' -> sub (a ++ b) (a' ++ b').
Proof.
  intros [r1 H1] [r2 H2]. exists (r1 ++ r2).
  eapply Permutation_trans; [|apply Permutation_app; [exact H1|exact H2]].
  rewrite <- !app_assoc. apply Permutation_app_head.
  rewrite !app_assoc. apply Permutation_app_tail. apply Permutation_app_comm.
Qed.

Lemma sub_incl {A} (l' l : list A) : sub l' l -> incl l' l.
Proof.
  intros [r H] x Hx. eapply Permutation_in; [exact H|]. apply in_or_app. left; exact Hx.
Qed.

Lemma sub_Forall {A} (P : A -> Prop) l' l : sub l' l -> Forall P l -> Forall P l'.
Proof.
  intros S H. rewrite Forall_forall in *. intros x Hx. apply H. eapply sub_incl; eauto.
Qed.

Lemma sub_flat_map {A B} (f : A -> list B) l' l : sub l' l -> sub (flat_map f l') (flat_map f l).
Proof.
  intros [r H]. exists (flat_map f r). rewrite <- flat_map_app.
  apply Permutation_flat_map. exact H.
Qed.

Lemma sub_NoDup {A} (l' l : list A) : sub l' l -> NoDup l -> NoDup l'.
Proof.
  intros [r H] N. apply Permutation_sym in H. apply (Permutation_NoDup H) in N.
  apply NoDup_app_inv in N. tauto.
Qed.

Section ListSub.
  Context {A : Type}.

  Lemma sub_firstn (l : list A) n : sub (firstn n l) l.
  Proof.
    exists (skipn n l). rewrite firstn_skipn. apply Permutation_refl.
  Qed.

  Lemma sub_skipn (l : list A) n : sub (skipn n l) l.
  Proof.
    exists (firstn n l). eapply Permutation_trans; [apply Permutation_app_comm|].
    rewrite firstn_skipn. apply Permutation_refl.
  Qed.

  Lemma sub_set_nth (l : list A) i x : sub (set_nth l i x) (x :: l).
  Proof.
    revert i. induction l as [|h t IH]; intros i; simpl.
    - apply sub_nil.
    - destruct i.
      + apply sub_cons. apply sub_skip. apply sub_refl.
      + eapply sub_perm; [apply sub_cons; apply IH|]. apply perm_swap.
  Qed.

  Lemma sub_del_nth (l : list A) i : sub (del_nth l i) l.
  Proof.
    revert i. induction l as [|h t IH]; intros i; simpl.
    - apply sub_nil.
    - destruct i; [apply sub_skip, sub_refl|apply sub_cons, IH].
  Qed.

  Lemma sub_firstn_skipn (l : list A) j k : j <= k -> sub (firstn j l ++ skipn k l) l.
  Proof.
    revert j k. induction l as [|h t IH]; intros j k H.
    - rewrite firstn_nil, skipn_nil. apply sub_nil.
    - destruct j as [|j]; simpl.
      + apply sub_skipn.
      + destruct k as [|k]; [lia|]. simpl. apply sub_cons. apply IH. lia.
  Qed.

  Lemma sub_drop_indices (l : list A) is pos : sub (drop_indices l is pos) l.
  Proof.
    revert pos. induction l as [|h t IH]; intros pos; simpl.
    - apply sub_nil.
    - destruct (existsb (Nat.eqb pos) is); [apply sub_skip, IH|apply sub_cons, IH].
  Qed.

  Lemma sub_assign_at (is : list nat) : forall (l vs : list A), sub (assign_at l is vs) (l ++ vs).
  Proof.
    induction is as [|i is IH]; intros l vs; simpl.
    - apply sub_app_r, sub_refl.
    - destruct vs as [|v vs].
      + apply sub_app_r, sub_refl.
      + eapply sub_trans; [apply IH|].
        eapply sub_perm; [apply sub_app; [apply sub_set_nth|apply sub_refl]|].
        simpl. apply Permutation_middle.
  Qed.

  Lemma sub_list_remove {B} (eqA : A -> B -> bool) (l : list A) x l' :
    list_remove eqA l x = Ok l' -> sub l' l.
  Proof.
    revert l'. induction l as [|h t IH]; intros l'; simpl; intros H.
    - discriminate.
    - destruct (eqA h x).
      + inversion H; subst. apply sub_skip, sub_refl.
      + destruct (list_remove eqA t x) as [t'|e]; [|discriminate].
        inversion H; subst. apply sub_cons. apply IH. reflexivity.
  Qed.
End ListSub.
