(* C05 — Buffered mode is transparent and defers all writes to the outermost exit.  Property theorems only. *)
From Coq Require Import List Bool ZArith.
From SC Require Import Model.Val Model.Plain Model.Ops Model.Valid Model.Class Model.Tree Model.Buffer Proofs.TreeDefs Proofs.BufferDefs Proofs.BufferSim Proofs.Bridge Corr.KBuf.
Import ListNotations.
Local Open Scope Z_scope.

(* TRANSPARENT: in any coherent state (every reachable state while nobody else writes the files — see the
   preservation theorems below), for both strategies, any object, any position p, any operation (reads, all
   mutators, clear and reset included), with the object's file used uniformly: the operation raises no
   buffer exception, returns exactly what the built-in operation returns on data equal (up to dict key
   order) to the file's logical content — which includes every earlier buffered write — and afterwards the
   file's logical content is the built-in new content; every other file's logical content is unchanged.
   Capacity-forced flushes are covered (they do not change any logical content). *)
Theorem C05_transparent : forall strat blen, (forall v, 0 <= blen v) ->
  forall s oid p o s' r f c,
  coherent_strong strat blen s -> known_obj s oid -> uniform_for s oid -> f = bo_file (get_obj s oid) ->
  logical strat s f = Some c ->
  (forall v, In v (nop_vals_b o) -> wf_val v = true) ->
  (pre_err o <> None \/ (p = [] /\ nop_no_load o = true) -> plain_at p o c <> None) ->
  bstep_fn strat blen s (BOp oid p o) = (s', r) -> r <> BBad ->
  coherent_strong strat blen s'
  /\ (forall x, r <> BExn x)
  /\ exists j rp newp,
       VEq j c /\ plain_at p o j = Some (rp, newp) /\ r = res_of rp
       /\ (exists c', logical strat s' f = Some c' /\ VEq c' newp)
       /\ (forall g, g <> f -> match logical strat s g, logical strat s' g with
                               | Some a, Some b => VEq b a | None, None => True | _, _ => False end).
Proof. exact op_transparent. Qed.
Print Assumptions C05_transparent.

(* DEFERRED: an operation through a buffered object writes no file unless the capacity forced a flush
   (b_forced counts the capacity-forced flushes; needs no invariant: holds in every state) *)
Theorem C05_deferred : forall strat blen s oid p o,
  is_buffered s oid = true ->
  let s' := fst (bstep_fn strat blen s (BOp oid p o)) in
  b_forced s' = b_forced s -> b_files s' = b_files s /\ b_writes s' = b_writes s.
Proof. exact buffered_op_defers. Qed.
Print Assumptions C05_deferred.

(* FINAL: leaving a buffered context (per object or backend-wide, at any nesting depth) never raises and never
   changes any file's logical content: what leaves the buffer is on disk.  At the outermost exit nothing is
   buffered any more (C15_zero_outside), so the file holds exactly the final logical content. *)
Theorem C05_final : forall strat blen, (forall v, 0 <= blen v) ->
  forall s op s' r,
  coherent_strong strat blen s -> (op = BExitCls \/ exists oid, op = BExitObj oid) ->
  (forall oid, op = BExitObj oid -> known_obj s oid) ->
  bstep_fn strat blen s op = (s', r) ->
  coherent_strong strat blen s' /\ (forall x, r <> BExn x)
  /\ forall g, match logical strat s g, logical strat s' g with
               | Some a, Some b => VEq b a | None, None => True | _, _ => False end.
Proof. exact exit_preserves. Qed.
Print Assumptions C05_final.

(* entering contexts (any depth, any order of the two kinds), creating objects and changing the capacity
   preserve the invariant and every logical content *)
Theorem C05_contexts_preserve : forall strat blen, (forall v, 0 <= blen v) ->
  forall s op s' r,
  coherent_strong strat blen s ->
  match op with BEnterObj _ | BEnterCls _ | BSetCap _ | BNew _ _ _ => True | _ => False end ->
  op_caps_ok op ->
  (forall oid f k, op = BNew oid f k -> nlookup oid (b_objs s) = None /\ read_disk s f <> None) ->
  (forall oid, op = BEnterObj oid -> known_obj s oid) ->
  bstep_fn strat blen s op = (s', r) ->
  coherent_strong strat blen s' /\ (forall x, r <> BExn x)
  /\ forall g, match logical strat s g, logical strat s' g with
               | Some a, Some b => VEq b a | None, None => True | _, _ => False end.
Proof. exact admin_preserves. Qed.
Print Assumptions C05_contexts_preserve.

(* non-vacuity: the initial state is coherent, and files can come into existence *)
Theorem C05_initial_state_coherent : forall strat blen cap, 0 <= cap -> coherent_strong strat blen (b_init cap).
Proof. exact coherent_strong_init. Qed.
Print Assumptions C05_initial_state_coherent.

Theorem C05_files_can_be_created : forall strat blen s f v s' r,
  coherent_strong strat blen s -> nlookup f (b_buffer s) = None -> wf_val v = true ->
  bstep_fn strat blen s (BExt f v) = (s', r) ->
  coherent_strong strat blen s' /\ (forall x, r <> BExn x) /\ logical strat s' f = Some v
  /\ forall g, g <> f -> match logical strat s g, logical strat s' g with
                         | Some a, Some b => VEq b a | None, None => True | _, _ => False end.
Proof. exact ext_unbuffered_preserves. Qed.
Print Assumptions C05_files_can_be_created.

(* the merge used everywhere yields the new data up to key order *)
Theorem C05_merge : forall old new, wf_val old = true -> wf_val new = true ->
  VEq (vmerge old new) new /\ wf_val (vmerge old new) = true.
Proof. exact vmerge_VEq. Qed.
Print Assumptions C05_merge.

(* the two model layers agree: the merge of the flat buffer model (`vmerge`, on plain data) IS the in-place merge of
   the object tree of the unbuffered machine (`upd`, Model/Tree.v) seen through `to_base` - exact equality, key order
   included - for every tree of the backend's classes and every valid new content of the same kind *)
Theorem C05_buffer_merge_is_tree_merge : forall T b L data n nx n' nx',
  backend_has_both T b = true -> uniform_backend T b L = true -> node_in_backend T b n ->
  val_ok L data = true -> wf_val data = true -> node_keys_unique n = true -> leaves_scalar n = true ->
  node_is_container n = true -> node_kind n = kind_of data ->
  upd T data n nx = (n', nx', None) ->
  to_base n' = vmerge (to_base n) data.
Proof. exact upd_is_vmerge. Qed.
Print Assumptions C05_buffer_merge_is_tree_merge.
