#!/usr/bin/env python3
"""Confirm a seeded change in a scratch worktree (never in /repo): demo passes without it, fails with it,
and the unedited suite still passes with it.  Writes the outcome into meta.json ("confirmed")."""
import json, os, subprocess, sys, tempfile, shutil

def sh(cmd, cwd=None, timeout=1800):
    return subprocess.run(cmd, shell=True, capture_output=True, text=True, cwd=cwd, timeout=timeout)

def verify(d, run_suite=True):
    d = os.path.abspath(d)
    wt = tempfile.mkdtemp(prefix="verif_seedwt_")
    os.rmdir(wt)
    sh(f"git -C /repo worktree add -q --detach {wt} HEAD")
    out = {}
    try:
        shutil.copy(os.path.join(d, "demo.py"), os.path.join(wt, "demo.py"))
        r0 = sh("/venv/bin/python demo.py", cwd=wt, timeout=300)
        out["demo_without"] = r0.returncode
        ap = sh(f"git apply {os.path.join(d, 'patch.diff')}", cwd=wt)
        out["applies"] = ap.returncode == 0
        if ap.returncode == 0:
            r1 = sh("/venv/bin/python demo.py", cwd=wt, timeout=300)
            out["demo_with"] = r1.returncode
            out["demo_output"] = (r1.stdout + r1.stderr)[-300:]
            if run_suite:
                rs = sh("/venv/bin/python -m pytest -q -p no:cacheprovider --timeout=900 2>&1 | tail -1", cwd=wt)
                out["suite_with"] = rs.stdout.strip()
    finally:
        sh(f"git -C /repo worktree remove --force {wt}")
    out["ok"] = bool(out.get("applies") and out.get("demo_without") == 0 and out.get("demo_with") not in (0, None)
                     and (not run_suite or "578 passed" in out.get("suite_with", "")))
    mp = os.path.join(d, "meta.json")
    meta = json.load(open(mp))
    meta["confirmed"] = out
    json.dump(meta, open(mp, "w"), indent=1)
    return out

if __name__ == "__main__":
    for d in sys.argv[1:]:
        o = verify(d)
        print(os.path.basename(os.path.abspath(d)), "OK" if o["ok"] else "NOT-CONFIRMED", {k: v for k, v in o.items() if k != "demo_output"})
