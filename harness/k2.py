"""K2: lock-event traces of every operation kind under every injectable fault assignment, compared
inside Coq with Conc.sexec (prog_of_op flavor kind); plus the C10 oracle: after an operation that
raised, another thread can still operate on the same file and on another file."""
import os
import shutil
import tempfile
import threading

from common import *

HEADER = ("From Coq Require Import List Arith ZArith Bool.\nFrom SC Require Import Model.Conc Corr.K2 Corr.KPlain.\nImport ListNotations.\n")

T = {"VALIDATE": 1, "LOAD": 2, "BODY": 3, "SAVE": 4, "BUFLOAD": 5, "BUFSAVE": 6, "FLUSH": 7, "SETNAME": 8}


BLOCKED_SEEN = [0]


class LogLock:
    def __init__(self, name, log):
        self.l = threading.RLock()
        self.name, self.log = name, log

    def acquire(self, *a, **kw):
        r = self.l.acquire(*a, **kw)
        if r:
            self.log.append(("acq", self.name))
        return r

    def release(self):
        self.log.append(("rel", self.name))
        self.l.release()

    def __enter__(self):
        self.acquire()
        return self

    def __exit__(self, *a):
        self.release()


class LockDict(dict):
    def __init__(self, log):
        super().__init__()
        self.log = log

    def __setitem__(self, k, v):
        if not isinstance(v, LogLock):
            v = LogLock("Coll", self.log)
        super().__setitem__(k, v)


def install(ns, cls, log):
    import synced_collections.data_types.synced_collection as sc
    saved = {"sc.RLock": sc.RLock, "cj.RLock": getattr(ns.cj, "RLock", None), "locks": cls._locks, "cls_lock": cls._cls_lock,
             "buf": getattr(cls, "_BUFFER_LOCK", None)}
    sc.RLock = lambda: LogLock("Coll", log)
    if hasattr(ns.cj, "RLock"):
        ns.cj.RLock = lambda: LogLock("Coll", log)
    cls._locks = LockDict(log)
    cls._cls_lock = LogLock("Cls", log)
    if hasattr(cls, "_BUFFER_LOCK"):
        cls._BUFFER_LOCK = LogLock("Buf", log)
    return saved


def uninstall(ns, cls, saved):
    import synced_collections.data_types.synced_collection as sc
    sc.RLock = saved["sc.RLock"]
    if saved["cj.RLock"] is not None:
        ns.cj.RLock = saved["cj.RLock"]
    cls._locks = {}
    cls._cls_lock = threading.RLock()
    if saved["buf"] is not None:
        cls._BUFFER_LOCK = threading.RLock()


def reset_buffer_state(cls):
    if hasattr(cls, "_buffer"):
        reset_buffer_class(cls)


FLAVORS = {"FUnbuf": "JSONDict", "FBufOff": "BufferedJSONDict", "FBufOn": "BufferedJSONDict"}
FLAVORS2 = {"FUnbuf": "JSONList", "FBufOff": "MemoryBufferedJSONDict", "FBufOn": "MemoryBufferedJSONDict"}
FLAVORS3 = {"FUnbuf": "JSONAttrDict", "FBufOff": "BufferedJSONList", "FBufOn": "BufferedJSONList"}
FLAVORS4 = {"FUnbuf": "JSONAttrList", "FBufOff": "MemoryBufferedJSONList", "FBufOn": "MemoryBufferedJSONList"}


METHODS_L = ["L.setitem_c", "L.append_c", "L.setitem", "L.delitem", "L.insert", "L.append", "L.extend", "L.iadd", "L.remove", "L.pop", "L.reverse", "L.setslice", "L.delslice",
             "L.nested_setitem", "L.nested_clear", "L.nested_reset", "L.nested_update"]
NEW_METHODS = {"setslice", "setitem_c", "append_c", "update_c", "setdefault"}
METHODS_D = ["D.setitem_c", "D.update_c", "D.setitem", "D.delitem", "D.pop", "D.popitem", "D.update", "D.update_kw", "D.setdefault",
             "D.nested_setitem", "D.nested_clear", "D.nested_reset", "D.nested_pop"]


def scenarios(flavor):
    """(kind, set of injected fault tags) pairs that can be provoked from outside."""
    out = []
    base = ["VALIDATE", "LOAD", "BODY", "SAVE"] if flavor != "FBufOn" else ["VALIDATE", "BUFLOAD", "BODY", "FLUSH"]
    import itertools
    for r in range(len(base) + 1):
        for fs in itertools.combinations(base, r):
            out.append(("KMutate", fs))
    base2 = ["VALIDATE", "BODY", "SAVE"] if flavor != "FBufOn" else ["VALIDATE", "BODY", "FLUSH"]
    for r in range(len(base2) + 1):
        for fs in itertools.combinations(base2, r):
            out.append(("KRootNoLoad", fs))
    # every public mutator method, at the root and through a nested child (which must use the root's context):
    # each must have the lock structure of KMutate
    for meth in METHODS_L + METHODS_D:
        out.append(("KMutate:" + meth, ()))
        out.append(("KMutate:" + meth, ("LOAD",) if flavor != "FBufOn" else ("BUFLOAD",)))
    out.append(("KRead", ()))
    out.append(("KRead", ("LOAD",) if flavor != "FBufOn" else ("BUFLOAD",)))
    out.append(("KSetFilename", ()))
    out.append(("KConstruct", ()))
    if flavor != "FUnbuf":
        out.append(("KSetCapacity", ()))
    if flavor == "FBufOn":
        out += [("KExitObj", ()), ("KExitObj", ("FLUSH",)), ("KExitCls", ()), ("KExitCls", ("FLUSH",)), ("KSetCapacity", ("FLUSH",))]
    return out


def run_one(ns, clsname, flavor, kind, faults, tmp, tag):
    """Returns (lock events during the op, raised?, post-op liveness failures)."""
    cls = getattr(ns.cj, clsname)
    is_list = clsname.endswith("List")
    log = []
    saved = install(ns, cls, log)
    reset_buffer_state(cls)
    d = os.path.join(tmp, tag)
    os.makedirs(d, exist_ok=True)
    f1, f2 = os.path.join(d, "a.json"), os.path.join(d, "b.json")
    init = [1, {"n": 1}] if is_list else {"a": 1, "n": {"k": 1}}
    for f in (f1, f2):
        with open(f, "w") as fh:
            json.dump(init, fh)
    stuck_all = []
    x, y, z = cls(f1), cls(f1), cls(f2)
    x(); y(); z()
    nested_child = x[1] if is_list else x["n"]       # obtained before any fault is injected
    ctx = None
    orig_save = cls._save_to_resource
    try:
        if flavor == "FBufOn" and kind != "KExitObj":
            ctx = cls.buffer_backend()
            ctx.__enter__()
        if "FLUSH" in faults:
            # make the next flush raise: z is modified in the buffer and its file changes outside
            if kind in ("KMutate", "KRootNoLoad", "KSetCapacity"):
                if is_list:
                    z.append(5)
                else:
                    z["m"] = 5
                with open(f2, "w") as fh:
                    json.dump([9] if is_list else {"outside": 1}, fh)
                st = os.stat(f2)
                os.utime(f2, ns=(st.st_atime_ns, st.st_mtime_ns + 5_000_000))
                if kind != "KSetCapacity":
                    cls.set_buffer_capacity(0) if False else None
        if kind in ("KExitObj",):
            x.buffered.__enter__()
            if "FLUSH" in faults or True:
                (x.append(3) if is_list else x.__setitem__("q", 3))
            if "FLUSH" in faults:
                with open(f1, "w") as fh:
                    json.dump([9] if is_list else {"outside": 1}, fh)
                st = os.stat(f1)
                os.utime(f1, ns=(st.st_atime_ns, st.st_mtime_ns + 5_000_000))
        if kind == "KExitCls":
            (x.append(3) if is_list else x.__setitem__("q", 3))
            if "FLUSH" in faults:
                with open(f1, "w") as fh:
                    json.dump([9] if is_list else {"outside": 1}, fh)
                st = os.stat(f1)
                os.utime(f1, ns=(st.st_atime_ns, st.st_mtime_ns + 5_000_000))
        if "LOAD" in faults or "BUFLOAD" in faults:
            target = f1
            with open(target, "w") as fh:
                fh.write("{not json")
            if flavor == "FBufOn":
                cls._buffer.pop(f1, None)
        if "SAVE" in faults:
            def boom(self):
                raise OSError(28, "No space left on device (injected)")
            cls._save_to_resource = boom
        cap_before = cls.get_buffer_capacity() if hasattr(cls, "get_buffer_capacity") else None
        if "FLUSH" in faults and kind in ("KMutate", "KRootNoLoad"):
            cls._BUFFER_CAPACITY = 0        # the save of this op exceeds the capacity and forces a flush
        bad = BadObj(1)
        del log[:]
        raised = None
        try:
            if kind.startswith("KMutate:"):
                meth = kind.split(":", 1)[1]
                tgt = x
                if meth.startswith("nested_"):
                    tgt = nested_child                         # a nested child handle: uses the root's context
                    meth = meth[7:]
                tl = isinstance(object.__getattribute__(tgt, "_data"), list)
                LM = {"setitem_c": lambda: tgt.__setitem__(0, [{"c": 1}]), "append_c": lambda: tgt.append([{"c": 1}]), "setitem": lambda: tgt.__setitem__(0, 5), "delitem": lambda: tgt.__delitem__(0), "insert": lambda: tgt.insert(0, 5),
                      "append": lambda: tgt.append(5), "extend": lambda: tgt.extend([5, 6]), "iadd": lambda: tgt.__iadd__([5]),
                      "remove": lambda: tgt.remove(1), "pop": lambda: tgt.pop(), "reverse": lambda: tgt.reverse(),
                      "clear": lambda: tgt.clear(), "reset": lambda: tgt.reset([3]), "setslice": lambda: tgt.__setitem__(slice(0, 1), [8, 9]),
                      "delslice": lambda: tgt.__delitem__(slice(0, 1))}
                DM = {"setitem_c": lambda: tgt.__setitem__("q", {"c": [1]}), "update_c": lambda: tgt.update({"u": {"c": 1}}), "setitem": lambda: tgt.__setitem__("q", 5), "delitem": lambda: tgt.__delitem__("k" if tgt is not x else "a"),
                      "pop": lambda: tgt.pop("zz"), "popitem": lambda: tgt.popitem(), "update": lambda: tgt.update({"u": 1}),
                      "update_kw": lambda: tgt.update(w=2), "setdefault": lambda: tgt.setdefault("sd", {"c": 1}),
                      "clear": lambda: tgt.clear(), "reset": lambda: tgt.reset({"r": 1})}
                (LM if tl else DM)[meth]()
            elif kind == "KMutate":
                if "VALIDATE" in faults:
                    (x.append(bad) if is_list else x.__setitem__("v", bad))
                elif "BODY" in faults:
                    (x.__delitem__(99) if is_list else x.__delitem__("missing"))
                else:
                    (x.append(7) if is_list else x.__setitem__("v", 7))
            elif kind == "KRootNoLoad":
                if "VALIDATE" in faults:
                    x.reset(5)
                elif "BODY" in faults:
                    x.reset([1, bad] if is_list else {"a": 1, "z": bad})
                else:
                    x.reset([4] if is_list else {"r": 4})
            elif kind == "KRead":
                x()
            elif kind == "KSetFilename":
                x.filename = os.path.join(d, "c.json")
            elif kind == "KConstruct":
                cls(os.path.join(d, "new.json"))
            elif kind == "KExitObj":
                x.buffered.__exit__(None, None, None)
            elif kind == "KExitCls":
                c2, ctx = ctx, None
                c2.__exit__(None, None, None)
            elif kind == "KSetCapacity":
                cls.set_buffer_capacity(0 if "FLUSH" in faults else 10 ** 7)
        except BaseException as e:  # noqa
            raised = type(e).__name__
        events = list(log)
        # ---- C10 oracle: another thread can still work on the same file and on another file
        cls._save_to_resource = orig_save
        if cap_before is not None:
            cls._BUFFER_CAPACITY = cap_before
        for f in (f1, f2):
            with open(f, "w") as fh:
                json.dump(init, fh)
        stuck = stuck_all

        def other(o, name):
            try:
                (o.append(1) if is_list else o.__setitem__("t", 1))
                o()
            except BaseException as e:  # noqa
                if type(e).__name__ not in ("BufferedError", "MetadataError"):
                    stuck.append(f"{name}: raised {type(e).__name__}: {e}")
        def same_object():
            # the operated object itself, from another thread, with operations that re-enter its lock
            # (a list reset that grows the list extends inside the load-and-save section; buffered loads take the lock again)
            try:
                if is_list:
                    x.reset([1, 2, 3, 4, 5])
                    x.append(6)
                else:
                    x.reset({"s": {"t": [1]}})
                    x["s"]["t"].append(2)
                x()
            except BaseException as e:  # noqa
                if type(e).__name__ not in ("BufferedError", "MetadataError"):
                    stuck.append(f"same object: raised {type(e).__name__}: {e}")
        probes = [(other, (y, "same file"), "same file"), (other, (z, "other file"), "other file")]
        if kind not in ("KExitCls",):
            probes.append((same_object, (), "same object"))
        if BLOCKED_SEEN[0] >= 6:
            probes = []          # enough stuck probes reported already: do not wait 3 s for each remaining case
        for fn_, args_, name in probes:
            th = threading.Thread(target=fn_, args=args_, daemon=True)
            th.start()
            th.join(3)
            if th.is_alive():
                stuck.append(f"{name}: blocked (lock still held)")
                BLOCKED_SEEN[0] += 1
        held = {}
        for kind_, name in events:
            held[name] = held.get(name, 0) + (1 if kind_ == "acq" else -1)
        leaked = {k: v for k, v in held.items() if v != 0}
        return events, raised, stuck, leaked
    finally:
        cls._save_to_resource = orig_save
        try:
            if ctx is not None and not any("blocked" in m for m in stuck_all):
                ctx.__exit__(None, None, None)      # (skipped when a probe thread is stuck holding a lock: it would block here too)
        except BaseException:  # noqa
            pass
        reset_buffer_state(cls)
        if hasattr(cls, "_BUFFER_CAPACITY"):
            cls._BUFFER_CAPACITY = type(cls).__getattribute__(cls, "_BUFFER_CAPACITY")
        uninstall(ns, cls, saved)


def c_events(events):
    m = {"Coll": "LColl", "Buf": "LBuf", "Cls": "LCls"}
    return "[" + ";".join(("EAcq " if k == "acq" else "ERel ") + m[n] for k, n in events) + "]"


def run(prop, tier, seed):
    ns = import_library()
    tmp = tempfile.mkdtemp(prefix="verif_k2_")
    default_caps = {c: getattr(ns.cj, c).get_buffer_capacity() for c in ("BufferedJSONDict", "MemoryBufferedJSONDict")}
    res = {"name": "K2", "model_mismatches": [], "oracle_failures": [], "samples": [], "stats": {}}
    cases, descr = [], []
    try:
        n = 0
        for table in (FLAVORS, FLAVORS2, FLAVORS3, FLAVORS4):
            for flavor, clsname in table.items():
                for kind, faults in scenarios(flavor):
                    if kind.startswith("KMutate:"):
                        want_list = kind.startswith("KMutate:L.")
                        if want_list != clsname.endswith("List"):
                            continue
                        kind = "KMutate:" + kind.split(".", 1)[1]
                    n += 1
                    events, raised, stuck, leaked = run_one(ns, clsname, flavor, kind, faults, tmp, f"c{n}")
                    for c, cap in default_caps.items():
                        getattr(ns.cj, c)._BUFFER_CAPACITY = cap
                    fs = "[" + ";".join(str(T[f]) for f in faults) + "]"
                    var = "{| v_list := %s; v_shm := %s |}" % ("true" if clsname.endswith("List") else "false", "true" if clsname.startswith("Memory") else "false")
                    ckind = ("KMutateNew" if kind.split(":")[-1] in NEW_METHODS else "KMutate") if kind.startswith("KMutate") else kind
                    cases.append(f"((({flavor}, {var}), {ckind}), {fs}, {c_events(events)}, {'true' if raised else 'false'})")
                    d = {"class": clsname, "flavor": flavor, "kind": kind, "faults": list(faults), "lock_events": events, "raised": raised}
                    descr.append(d)
                    key = f"{flavor}:{kind}"
                    res["stats"][key] = res["stats"].get(key, 0) + 1
                    if stuck:
                        res["oracle_failures"].append({"oracle": "C10-liveness", "detail": "; ".join(stuck), "case": d})
                    if leaked:
                        res["oracle_failures"].append({"oracle": "C10-leak", "detail": f"locks left held after the operation: {leaked}", "case": d})
                    if faults and not raised and kind not in ("KRead",) and not (set(faults) <= {"FLUSH"} and kind in ("KExitObj",)):
                        pass
        bad = run_case_files(HEADER, "(flavor * variant * opkind * list nat * list event * bool)", "check_k2", cases, shard=200)
        for b in bad[:6]:
            c = cases[b]
            txt = coq_eval(HEADER, f"model_lock_events {c}")
            res["model_mismatches"].append({"correspondence": "K2 (Corr/K2.v check_k2): lock events of the implementation differ from Conc.prog_of_op",
                                            "case": descr[b], "model": re.sub(r"\s+", " ", txt)[-400:]})
        if len(bad) > 6:
            res["model_mismatches"].append({"correspondence": "K2", "more": len(bad) - 6})
    finally:
        shutil.rmtree(tmp, ignore_errors=True)
    res.update(evaluations=len(cases), distinct_nontrivial=len({json.dumps(d, sort_keys=True, default=repr) for d in descr}), traces=len(cases),
               rule="every (flavor, operation kind, injectable fault subset) on two classes per flavor; faults injected from outside "
                    "(rejected value, unparsable file, failing body, OSError in _save_to_resource, conflicting flush); exhaustive over the listed product",
               samples=descr[:2] + [d for d in descr if d["faults"]][:2], exhaustive=True)
    return res


if __name__ == "__main__":
    r = run("C10", "quick", 1)
    print(json.dumps({k: v for k, v in r.items() if k not in ("samples", "stats")}, indent=1, default=repr)[:6000])
