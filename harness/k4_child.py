"""Child process of K4: performs one save scenario, optionally crashing at a chosen point.

usage: k4_child.py <repo> <mode> <dir> <crash_kind> <n> [<cut>]
crash kinds: none | count | line | fileop | prefix
"""
import builtins
import json
import os
import sys

repo, mode, d, kind = sys.argv[1], sys.argv[2], sys.argv[3], sys.argv[4]
n = int(sys.argv[5]) if len(sys.argv) > 5 else 0
cut = int(sys.argv[6]) if len(sys.argv) > 6 else 0
sys.path.insert(0, repo)
from synced_collections.backends.collection_json import (  # noqa: E402
    BufferedJSONDict, JSONDict, JSONList, MemoryBufferedJSONDict)

NEW = {"k": "v" * 40, "n": [1, 2, 3], "o": {"p": None}}
counters = {"line": 0, "fileop": 0}


def mark(name):
    try:
        os.stat(os.path.join(d, name))
    except OSError:
        pass


def boundary():
    counters["fileop"] += 1
    if kind == "fileop" and counters["fileop"] == n:
        os._exit(77)


class Shim:
    """A writer that performs real unbuffered file operations and can die between / inside them."""

    def __init__(self, path):
        boundary()
        self.fd = os.open(path, os.O_WRONLY | os.O_CREAT | os.O_TRUNC, 0o644)
        boundary()
        self.nwrite = 0

    def write(self, b):
        self.nwrite += 1
        if kind == "prefix" and counters["fileop"] + 1 == n:
            os.write(self.fd, b[:cut])
            os._exit(77)
        boundary()
        os.write(self.fd, b)
        boundary()
        return len(b)

    def close(self):
        boundary()
        os.close(self.fd)
        boundary()

    def __enter__(self):
        return self

    def __exit__(self, *a):
        self.close()


real_open = builtins.open
real_replace = os.replace


def fake_open(path, mode="r", *a, **kw):
    if isinstance(path, str) and path.startswith(d) and "w" in mode and "b" in mode:
        return Shim(path)
    return real_open(path, mode, *a, **kw)


def fake_replace(src, dst):
    boundary()
    real_replace(src, dst)
    boundary()


def real_replace_then_die(src, dst):
    """kind realreplace: genuine buffered file objects (no shim); die right BEFORE (odd n) / AFTER (even n) the k-th rename.
    Data still sitting in a Python-level buffer at that moment is lost, exactly as in a real crash."""
    counters["fileop"] += 1
    if counters["fileop"] == n:
        os._exit(77)
    real_replace(src, dst)
    counters["fileop"] += 1
    if counters["fileop"] == n:
        os._exit(77)


def tracer(frame, event, arg):
    if "synced_collections" not in frame.f_code.co_filename:
        return None
    if event == "line":
        counters["line"] += 1
        if kind == "line" and counters["line"] == n:
            os._exit(77)
    return tracer


def arm():
    if kind in ("fileop", "prefix") or (kind == "count" and n == 1):
        builtins.open = fake_open
        os.replace = fake_replace
        import synced_collections.backends.collection_json as cj
        cj.os.replace = fake_replace
    if kind == "realreplace":
        os.replace = real_replace_then_die
        import synced_collections.backends.collection_json as cj
        cj.os.replace = real_replace_then_die
    if kind == "line" or (kind == "count" and n == 0):
        sys.settrace(tracer)


f1, f2, f3 = (os.path.join(d, x) for x in ("a.json", "b.json", "c.json"))
if mode in ("threading", "nested"):
    x = JSONDict(f1)
    x()
    mark("MARK_BEGIN"); arm()
    if mode == "nested":
        x["o"]["p"] = NEW
    else:
        x.reset(NEW)
elif mode == "reenabled":
    # multithreading support switched off and on again earlier in the process: saves must be atomic again
    JSONDict.disable_multithreading()
    JSONDict.enable_multithreading()
    x = JSONDict(f1)
    x()
    mark("MARK_BEGIN"); arm()
    x.reset(NEW)
elif mode == "reenabled_flush":
    BufferedJSONDict.disable_multithreading()
    BufferedJSONDict.enable_multithreading()
    x, y = BufferedJSONDict(f1), BufferedJSONDict(f2)
    x(); y()
    mark("MARK_BEGIN"); arm()
    with BufferedJSONDict.buffer_backend():
        x["new"] = NEW
        y["new"] = [NEW, NEW]
elif mode == "write_concern":
    JSONDict.disable_multithreading()
    x = JSONDict(f1, write_concern=True)
    x()
    mark("MARK_BEGIN"); arm()
    x.update(NEW)
elif mode == "list":
    x = JSONList(f3)
    x()
    mark("MARK_BEGIN"); arm()
    x.extend([NEW, 1, "z"])
elif mode == "inplace":
    JSONDict.disable_multithreading()
    x = JSONDict(f1)
    x()
    mark("MARK_BEGIN"); arm()
    x.reset(NEW)
elif mode in ("ser_flush", "shm_flush", "obj_flush"):
    D = BufferedJSONDict if mode != "shm_flush" else MemoryBufferedJSONDict
    x, y = D(f1), D(f2)
    x(); y()
    mark("MARK_BEGIN"); arm()
    if mode == "obj_flush":
        with x.buffered:
            x["new"] = NEW
            x["k"] = 5
    else:
        with D.buffer_backend():
            x["new"] = NEW
            y["new"] = [NEW, NEW]
            x["k"] = 5
elif mode.startswith("unser_"):
    sub = mode[6:]
    if sub != "threading":
        JSONDict.disable_multithreading()
    x = JSONDict(f1, write_concern=(sub == "write_concern"))
    x()
    mark("MARK_BEGIN"); arm()
    object.__getattribute__(x, "_data")["bad"] = {1, 2, 3}     # slips past validation on purpose
    try:
        x._save()
    except TypeError:
        pass
    else:
        os._exit(3)
sys.settrace(None)
mark("MARK_END")
if kind == "count":
    print("COUNT", counters["line"], counters["fileop"])
os._exit(0)
