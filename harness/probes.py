"""K5 probes: minimal replays of the recorded known findings (re-confirmed on every run)."""
import json
import os
import shutil
import sys
import tempfile

sys.path.insert(0, os.path.dirname(os.path.abspath(__file__)))
from common import *  # noqa


def probe_d19():
    """Shared-memory strategy: after a common session the objects of one file stay entangled."""
    ns = import_library()
    cls = ns.cj.MemoryBufferedJSONDict
    d = tempfile.mkdtemp(prefix="verif_probe_")
    try:
        f = os.path.join(d, "a.json")
        with open(f, "w") as fh:
            json.dump({"l": [1]}, fh)
        A, B = cls(f), cls(f)
        with cls.buffer_backend():
            B()          # B's container becomes the shared one; the child 'l' is owned by B
            A()
        shared = object.__getattribute__(A, "_data") is object.__getattribute__(B, "_data")
        with A.buffered:
            A["l"].append(3)
            with open(f) as fh:
                during = json.load(fh)
        written_early = during != {"l": [1]}
        return {"reproduced": bool(shared and written_early), "shared_container": shared, "file_during_A_buffered": during}
    finally:
        cls._buffer.clear(); cls._buffered_collections.clear(); cls._CURRENT_BUFFER_SIZE = 0
        shutil.rmtree(d, ignore_errors=True)


def probe_d18(tier="quick"):
    import k3
    rs = k3.run_scenarios(k3.scenarios_d18(tier), "quick", 1, jobs=4, gran="call")
    hits = [r for r in rs if r["bad"]]
    return {"reproduced": bool(hits), "scenarios": [(r["name"], r["bad"][0]["why"][:160]) for r in hits]}


if __name__ == "__main__":
    which = sys.argv[1] if len(sys.argv) > 1 else "D19"
    print(json.dumps({"D19": probe_d19, "D18": probe_d18}[which](), indent=1, default=repr))
