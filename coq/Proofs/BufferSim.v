(* BufferSim.v — C05 "buffered mode is transparent and defers writes", C06 "objects on one file share one
   buffered state": while nobody else writes the files and every operation is issued in a state in which the
   objects of its file agree on being buffered, the buffered machine (Model/Buffer.v) implements "one plain
   structure per file" = [logical s f].

   S1 vmerge_VEq            proved as stated
   S2 op_transparent        proved for the invariant [coherent_strong], with ONE added hypothesis (see CHANGED)
   S3 exit_preserves        proved for [coherent_strong], with ONE added hypothesis (see CHANGED)
   S4 buffered_op_defers    proved as stated
   S5 admin_preserves       proved for [coherent_strong], with ONE added hypothesis (see CHANGED)
   plus: coherent_strong_coherent, coherent_strong_init, ext_unbuffered_preserves (an outside writer creating or
   changing a file that is not in the buffer keeps the invariant: this is how files come into existence).

   The proofs live in Proofs/BufferSimAux1.v .. BufferSimAux7.v (compiled by hand, in that order):
     Aux1 VEq, merge (S1), lists, built-in operations keep keys unique, apply_at against plain_at
     Aux2 S4
     Aux3 the invariant and the state transformers it is preserved by
     Aux4 flush_one, flush_loop, flush_buffer, check_capacity, set_capacity
     Aux5 implication to [coherent], initial state, S3, S5, outside writer
     Aux6 load, save
     Aux7 S2 *)
From Coq Require Import List ZArith NArith Bool Lia.
From SC Require Import Model.Val Model.Plain Model.Ops Proofs.TreeDefs Proofs.TreeBase Model.Buffer
  Proofs.BufferDefs Corr.KBuf.
From SC Require Proofs.BufferSimAux1 Proofs.BufferSimAux2 Proofs.BufferSimAux3 Proofs.BufferSimAux4
  Proofs.BufferSimAux5 Proofs.BufferSimAux6 Proofs.BufferSimAux7.
Import ListNotations.
Local Open Scope Z_scope.

Module A1 := BufferSimAux1.
Module A2 := BufferSimAux2.
Module A3 := BufferSimAux3.
Module A4 := BufferSimAux4.
Module A5 := BufferSimAux5.
Module A7 := BufferSimAux7.

(* the [val] arguments of an operation (same as MachineDefs.nop_vals) *)
Definition nop_vals_b : nop -> list val := A1.nop_vals_b.

(* ---- the components of the strengthened invariant (definitions repeated from BufferSimAux3.v) ---- *)
(* one entry against the disk: no outside change since it entered the buffer; Ser: the content whose hash was
   recorded is the disk content; Shm: an unmodified container equals the disk *)
Definition ent1 (strat : strategy) (s : bstate) (f : nat) (e : entry) : Prop :=
  e_meta e = stamp s f /\ exists d, read_disk s f = Some d /\
    match strat with
    | Ser => VEq (e_hash e) d
    | Shm => e_mod e = false -> VEq (heap_at s (e_loc e)) d
    end.
Definition ent_ok strat (s : bstate) : Prop := forall f e, nlookup f (b_buffer s) = Some e -> ent1 strat s f e.
(* the file of every object exists *)
Definition objs_disk (s : bstate) : Prop :=
  forall oid o, nlookup oid (b_objs s) = Some o -> read_disk s (bo_file o) <> None.
(* registered objects exist *)
Definition bcs_known (s : bstate) : Prop := forall oid, In oid (b_bcs s) -> known_obj s oid.
(* shared memory: containers are never shared between files, are allocated, and those of entries exist *)
Definition locs_ok (strat : strategy) (s : bstate) : Prop :=
  strat = Shm -> exists own : nat -> nat,
    (forall oid o, nlookup oid (b_objs s) = Some o -> own (bo_loc o) = bo_file o /\ (bo_loc o < b_nloc s)%nat)
    /\ (forall f e, nlookup f (b_buffer s) = Some e ->
          own (e_loc e) = f /\ (e_loc e < b_nloc s)%nat /\ nlookup (e_loc e) (b_heap s) <> None).

(* ------------------------------------------------------------------ *)
(* counterexamples to the statements as first given                    *)
(* ------------------------------------------------------------------ *)
Module Counter.
  Definition bl : val -> Z := fun _ => 1.
  Lemma bl_ok : A4.blen_ok bl.
  Proof. intros v. unfold bl. lia. Qed.
  Definition ka := KStr [97%N].
  Definition kb := KStr [98%N].
  Definition step (s : bstate) (op : bop) : bstate := fst (bstep_fn Shm bl s op).
  Definition t0 := b_init 100.
  Definition t1 := step t0 (BExt 0 (VD [])).
  Definition t2 := step t1 (BExt 5 (VD [])).
  Definition t3 := step t2 (BNew 1 5 KDict).
  Definition t4 := step t3 (BEnterObj 1).
  Definition t5 := step t4 (BOp 1 [] (OD (DSet ka (VS (SInt 1))))).

  Lemma t1_ok : A3.coherent_strong Shm bl t1.
  Proof.
    refine (proj1 (A5.ext_unbuffered_preserves Shm bl t0 0 (VD []) t1 _ (A5.coherent_strong_init Shm bl 100 _) eq_refl eq_refl
                     (surjective_pairing _))). lia.
  Qed.
  Lemma t2_ok : A3.coherent_strong Shm bl t2.
  Proof.
    exact (proj1 (A5.ext_unbuffered_preserves Shm bl t1 5 (VD []) t2 _ t1_ok eq_refl eq_refl (surjective_pairing _))).
  Qed.
  Lemma t3_ok : A3.coherent_strong Shm bl t3.
  Proof.
    refine (proj1 (A5.admin_preserves_aux Shm bl bl_ok t2 (BNew 1 5 KDict) t3 _ t2_ok I I _ _ (surjective_pairing _))).
    - intros oid f k E. inversion E; subst. vm_compute. split; [reflexivity|discriminate].
    - intros oid E. discriminate.
  Qed.
  Lemma t4_ok : A3.coherent_strong Shm bl t4.
  Proof.
    refine (proj1 (A5.admin_preserves_aux Shm bl bl_ok t3 (BEnterObj 1) t4 _ t3_ok I I _ _ (surjective_pairing _))).
    - intros oid f k E. discriminate.
    - intros oid E. inversion E; subst. eexists. vm_compute. reflexivity.
  Qed.
  Lemma t5_ok : A3.coherent_strong Shm bl t5.
  Proof.
    refine (proj1 (A7.op_transparent_aux Shm bl bl_ok t4 1 [] (OD (DSet ka (VS (SInt 1)))) t5 _ 5%nat (VD [])
                     t4_ok _ _ _ _ _ _ (surjective_pairing _) _)).
    - eexists. vm_compute. reflexivity.
    - left. vm_compute. reflexivity.
    - vm_compute. reflexivity.
    - vm_compute. reflexivity.
    - intros v [<-|[]]. reflexivity.
    - vm_compute. discriminate.
    - vm_compute. discriminate.
  Qed.

  (* S3 as first given (no [known_obj] for BExitObj) is false for Shm, whatever invariant is used:
     leaving the context of an object that was never created wipes the shared container at location 0 *)
  Example exit_unknown_object_loses_data :
    A3.coherent_strong Shm bl t5
    /\ logical Shm t5 5 = Some (VD [(ka, VS (SInt 1))])
    /\ logical Shm (step t5 (BExitObj 99)) 5 = Some (VD [])
    /\ ~ VEq (VD []) (VD [(ka, VS (SInt 1))]).
  Proof.
    split; [exact t5_ok|]. split; [vm_compute; reflexivity|]. split; [vm_compute; reflexivity|].
    intros H. inversion H as [| |d e H1 H2]; subst. specialize (H2 ka eq_refl). vm_compute in H2. discriminate.
  Qed.

  (* S5 as first given (no [known_obj] for BEnterObj) cannot hold together with S2, whatever invariant is used:
     entering the context of an object that was never created makes it an object of file 0 at location 0,
     and an operation through it (uniformly buffered, on file 0) then changes the content of file 5 *)
  Example enter_unknown_object_breaks_transparency :
    let u := step t5 (BEnterObj 99) in
    A3.coherent_strong Shm bl t5
    /\ known_obj u 99 /\ uniform_for u 99 /\ bo_file (get_obj u 99) = 0%nat /\ logical Shm u 0 = Some (VD [])
    /\ logical Shm u 5 = Some (VD [(ka, VS (SInt 1))])
    /\ logical Shm (step u (BOp 99 [] (OD (DSet kb (VS (SInt 2)))))) 5 = Some (VD [(kb, VS (SInt 2))])
    /\ ~ A3.coherent_strong Shm bl u.
  Proof.
    cbv zeta. split; [exact t5_ok|]. split; [eexists; vm_compute; reflexivity|].
    split; [left; vm_compute; reflexivity|]. split; [vm_compute; reflexivity|]. split; [vm_compute; reflexivity|].
    split; [vm_compute; reflexivity|]. split; [vm_compute; reflexivity|].
    intros (C & _). destruct (A3.c_locs _ _ _ C eq_refl) as [own [L1 _]].
    assert (H1 : own 0%nat = 5%nat).
    { refine (proj1 (L1 1%nat {| bo_file := 5; bo_loc := 0; bo_buf := 1; bo_kind := KDict |} _)). vm_compute. reflexivity. }
    assert (H2 : own 0%nat = 0%nat).
    { refine (proj1 (L1 99%nat {| bo_file := 0; bo_loc := 0; bo_buf := 1; bo_kind := KDict |} _)). vm_compute. reflexivity. }
    congruence.
  Qed.

  (* S2 as first given (no applicability hypothesis) is false:
     (a) an argument error is raised before the path is looked at, the built-in operation at a position that
         does not exist is undefined; (b) a root clear/reset does not look at the file, whose content may be of
         the other kind *)
  Example op_rejected_argument_at_missing_path :
    snd (bstep_fn Shm bl t3 (BOp 1 [PKey ka] (OD (DUpdate (VS SNull))))) = BErr EType
    /\ logical Shm t3 5 = Some (VD [])
    /\ forall j, VEq j (VD []) -> plain_at [PKey ka] (OD (DUpdate (VS SNull))) j = None.
  Proof.
    split; [vm_compute; reflexivity|]. split; [vm_compute; reflexivity|].
    intros j H. inversion H as [| |d e H1 H2]; subst. cbn [plain_at].
    destruct (alookup ka d) as [x|] eqn:E; [|reflexivity]. destruct (H1 _ _ E) as [y [Hy _]]. discriminate.
  Qed.
  Example op_root_clear_on_other_kind :
    let s := step (step (step t0 (BExt 5 (VL []))) (BNew 1 5 KDict)) (BEnterObj 1) in
    snd (bstep_fn Shm bl s (BOp 1 [] (OD DClear))) = BOk (VS SNull)
    /\ logical Shm s 5 = Some (VL [])
    /\ forall j, VEq j (VL []) -> plain_at [] (OD DClear) j = None.
  Proof.
    cbv zeta. split; [vm_compute; reflexivity|]. split; [vm_compute; reflexivity|].
    intros j H. inversion H; subst. reflexivity.
  Qed.
End Counter.

(* ------------------------------------------------------------------ *)
(* the theorems                                                        *)
(* ------------------------------------------------------------------ *)
Section BufferSim.
  Variable strat : strategy.
  Variable blen : val -> Z.
  Hypothesis blen_nonneg : forall v, 0 <= blen v.

  (* the strengthened coherence invariant: [coherent] of BufferDefs.v (first five components and reg_inv), plus
     what makes it inductive *)
  Definition coherent_strong (s : bstate) : Prop :=
    (acct strat blen s /\ stack_ok s /\ values_wf s /\ ent_ok strat s /\ objs_disk s /\ bcs_known s /\ locs_ok strat s)
    /\ reg_inv s /\ b_size s <= b_cap s.

  Lemma coherent_strong_iff s : coherent_strong s <-> A3.coherent_strong strat blen s.
  Proof.
    unfold coherent_strong, A3.coherent_strong. split.
    - intros ((H1 & H2 & H3 & H4 & H5 & H6 & H7) & R & S). split; [constructor; assumption|auto].
    - intros (C & R & S). destruct C. auto 10.
  Qed.

  Theorem coherent_strong_coherent s : coherent_strong s -> coherent strat blen s.
  Proof. intros H. apply A5.coherent_strong_coherent. apply coherent_strong_iff. exact H. Qed.

  Theorem coherent_strong_init cap : 0 <= cap -> coherent_strong (b_init cap).
  Proof. intros H. apply coherent_strong_iff. apply A5.coherent_strong_init. exact H. Qed.

  (* S1: the merge yields the new data, up to key order *)
  Theorem vmerge_VEq old new : wf_val old = true -> wf_val new = true ->
    VEq (vmerge old new) new /\ wf_val (vmerge old new) = true.
  Proof. apply A1.vmerge_VEq. Qed.

  (* S2 (C05_transparent / C06_shared_visibility).
     CHANGED: (1) [coherent_strong] in place of [coherent] (as planned: [coherent] is not inductive);
     (2) added hypothesis: when the argument is rejected up front ([pre_err]) or the operation is a root
     clear/reset (these two do not look at the data), the operation is applicable at position p of the file's
     logical content, [plain_at p o c <> None] (the position exists and holds a container of the kind of the
     operation).  Without it the statement is false (Counter.op_rejected_argument_at_missing_path,
     Counter.op_root_clear_on_other_kind).  In the remaining cases applicability follows from [r <> BBad]. *)
  Theorem op_transparent s oid p o s' r f c :
    coherent_strong s -> known_obj s oid -> uniform_for s oid -> f = bo_file (get_obj s oid) ->
    logical strat s f = Some c ->
    (forall v, In v (nop_vals_b o) -> wf_val v = true) ->
    (pre_err o <> None \/ (p = [] /\ nop_no_load o = true) -> plain_at p o c <> None) ->
    bstep_fn strat blen s (BOp oid p o) = (s', r) -> r <> BBad ->
    coherent_strong s'
    /\ (forall x, r <> BExn x)
    /\ exists j rp newp,
         VEq j c /\ plain_at p o j = Some (rp, newp) /\ r = res_of rp
         /\ (exists c', logical strat s' f = Some c' /\ VEq c' newp)
         /\ (forall g, g <> f -> match logical strat s g, logical strat s' g with
                                 | Some a, Some b => VEq b a | None, None => True | _, _ => False end).
  Proof.
    intros CS K U Hf Hc Wa Hd H Hr. apply coherent_strong_iff in CS.
    destruct (A7.op_transparent_aux strat blen blen_nonneg s oid p o s' r f c CS K U Hf Hc Wa Hd H Hr)
      as (CS' & Hx & j & rp & newp & H1 & H2 & H3 & H4 & H5).
    split; [apply coherent_strong_iff; exact CS'|]. split; [exact Hx|].
    exists j, rp, newp. split; [exact H1|]. split; [exact H2|]. split; [exact H3|]. split; [exact H4|].
    intros g Hg. exact (H5 g Hg).
  Qed.

  (* S3 (C05_final / C06_flush_keeps_all).
     CHANGED: (1) [coherent_strong] in place of [coherent]; (2) added hypothesis: the object whose context is
     left exists.  Without it the statement is false for Shm (Counter.exit_unknown_object_loses_data): the
     model gives a never-created object file 0 and container 0, and leaving its context overwrites that
     container. *)
  Theorem exit_preserves s op s' r :
    coherent_strong s -> (op = BExitCls \/ exists oid, op = BExitObj oid) ->
    (forall oid, op = BExitObj oid -> known_obj s oid) ->
    bstep_fn strat blen s op = (s', r) ->
    coherent_strong s' /\ (forall x, r <> BExn x)
    /\ forall g, match logical strat s g, logical strat s' g with
                 | Some a, Some b => VEq b a | None, None => True | _, _ => False end.
  Proof.
    intros CS Hop K H. apply coherent_strong_iff in CS. destruct Hop as [->|[oid ->]].
    - destruct (A5.exit_cls_preserves strat blen blen_nonneg s s' r CS H) as (CS' & Hx & L).
      split; [apply coherent_strong_iff; exact CS'|]. split; [exact Hx|]. intros g. exact (L g).
    - destruct (A5.exit_obj_preserves strat blen blen_nonneg s oid s' r CS (K oid eq_refl) H) as (CS' & Hx & L).
      split; [apply coherent_strong_iff; exact CS'|]. split; [exact Hx|]. intros g. exact (L g).
  Qed.

  (* S4 (C05_deferred) *)
  Theorem buffered_op_defers s oid p o :
    is_buffered s oid = true ->
    let s' := fst (bstep_fn strat blen s (BOp oid p o)) in
    b_forced s' = b_forced s -> b_files s' = b_files s /\ b_writes s' = b_writes s.
  Proof. apply A2.buffered_op_defers. Qed.

  (* S5.
     CHANGED: (1) [coherent_strong] in place of [coherent]; (2) added hypothesis: the object whose context is
     entered exists.  Without it no invariant can make both this statement and op_transparent true
     (Counter.enter_unknown_object_breaks_transparency). *)
  Theorem admin_preserves s op s' r :
    coherent_strong s ->
    match op with BEnterObj _ | BEnterCls _ | BSetCap _ | BNew _ _ _ => True | _ => False end ->
    op_caps_ok op ->
    (forall oid f k, op = BNew oid f k -> nlookup oid (b_objs s) = None /\ read_disk s f <> None) ->
    (forall oid, op = BEnterObj oid -> known_obj s oid) ->
    bstep_fn strat blen s op = (s', r) ->
    coherent_strong s' /\ (forall x, r <> BExn x)
    /\ forall g, match logical strat s g, logical strat s' g with
                 | Some a, Some b => VEq b a | None, None => True | _, _ => False end.
  Proof.
    intros CS Hop Hc Hn Hk H. apply coherent_strong_iff in CS.
    destruct (A5.admin_preserves_aux strat blen blen_nonneg s op s' r CS Hop Hc Hn Hk H) as (CS' & Hx & L).
    split; [apply coherent_strong_iff; exact CS'|]. split; [exact Hx|]. intros g. exact (L g).
  Qed.

  (* an outside writer creating or changing a file that is not in the buffer keeps the invariant; the other
     files keep their logical content *)
  Theorem ext_unbuffered_preserves s f v s' r :
    coherent_strong s -> nlookup f (b_buffer s) = None -> wf_val v = true ->
    bstep_fn strat blen s (BExt f v) = (s', r) ->
    coherent_strong s' /\ (forall x, r <> BExn x) /\ logical strat s' f = Some v
    /\ forall g, g <> f -> match logical strat s g, logical strat s' g with
                           | Some a, Some b => VEq b a | None, None => True | _, _ => False end.
  Proof.
    intros CS Hn Wv H. apply coherent_strong_iff in CS.
    destruct (A5.ext_unbuffered_preserves strat blen s f v s' r CS Hn Wv H) as (CS' & Hx & L & Lf).
    split; [apply coherent_strong_iff; exact CS'|]. split; [exact Hx|]. split; [exact Lf|].
    intros g Hg. exact (L g Hg).
  Qed.
End BufferSim.

Print Assumptions vmerge_VEq.
Print Assumptions op_transparent.
Print Assumptions exit_preserves.
Print Assumptions buffered_op_defers.
Print Assumptions admin_preserves.
Print Assumptions coherent_strong_coherent.
Print Assumptions coherent_strong_init.
Print Assumptions ext_unbuffered_preserves.
Print Assumptions Counter.exit_unknown_object_loses_data.
Print Assumptions Counter.enter_unknown_object_breaks_transparency.
Print Assumptions Counter.op_rejected_argument_at_missing_path.
Print Assumptions Counter.op_root_clear_on_other_kind.
