From Coq Require Import List ZArith Bool Lia NArith.
Import ListNotations.

Definition str := list N.
Definition str_eqb (a b : str) : bool := if list_eq_dec N.eq_dec a b then true else false.
Inductive scalar := SNull | SBool (b:bool) | SInt (z:Z) | SStr (s:str).
Inductive json := JS (s:scalar) | JL (l:list json) | JD (d:list (str*json)).
Inductive node := NS (s:scalar) | NL (id:nat) (l:list node) | ND (id:nat) (d:list (str*node)).

Definition M (A:Type) := nat -> A * nat.
Definition ret {A} (a:A) : M A := fun c => (a,c).
Definition bind {A B} (m:M A) (f:A -> M B) : M B := fun c => let '(a,c') := m c in f a c'.
Definition fresh : M nat := fun c => (c, S c).

Definition mapM {A B} (f:A -> M B) : list A -> M (list B) :=
  fix go l := match l with [] => ret [] | x::r => bind (f x) (fun y => bind (go r) (fun ys => ret (y::ys))) end.

(* zip-style merge over data items and existing children *)
Definition zipM {A B} (f:A -> option B -> M B) : list A -> list B -> M (list B) :=
  fix go l ch := match l with
                 | [] => ret []
                 | x::r => bind (f x (hd_error ch)) (fun y => bind (go r (tl ch)) (fun ys => ret (y::ys)))
                 end.

Fixpoint to_base (n:node) : json :=
  match n with
  | NS s => JS s
  | NL _ l => JL (map to_base l)
  | ND _ d => JD (map (fun kv => (fst kv, to_base (snd kv))) d)
  end.

Fixpoint from_base (j:json) : M node :=
  match j with
  | JS s => ret (NS s)
  | JL l => bind fresh (fun id => bind (mapM from_base l) (fun ns => ret (NL id ns)))
  | JD d => bind fresh (fun id => bind (mapM (fun kv => bind (from_base (snd kv)) (fun n => ret (fst kv, n))) d) (fun ns => ret (ND id ns)))
  end.

Fixpoint assoc {A} (k:str) (d:list (str*A)) : option A :=
  match d with [] => None | (k',v)::r => if str_eqb k k' then Some v else assoc k r end.


Fixpoint json_eqb (a b:json) {struct a} : bool :=
  match a, b with
  | JS x, JS y => match x,y with SNull,SNull => true | SBool p, SBool q => Bool.eqb p q | SInt p, SInt q => Z.eqb p q
                  | SStr p, SStr q => str_eqb p q | _,_ => false end
  | JL x, JL y => (fix go (x y:list json) := match x,y with [],[] => true | p::x', q::y' => json_eqb p q && go x' y' | _,_ => false end) x y
  | _,_ => false
  end.

Fixpoint upd (j:json) (n:node) {struct j} : M node :=
  match j, n with
  | JL items, NL id ch =>
      bind (zipM (fun jv ex => match ex with
                               | None => from_base jv
                               | Some e => if json_eqb jv (to_base e) then ret e else upd jv e
                               end) items ch)
           (fun ch' => ret (NL id ch'))
  | JD items, ND id ch =>
      bind (mapM (fun kv => match assoc (fst kv) ch with
                            | None => bind (from_base (snd kv)) (fun n => ret (fst kv, n))
                            | Some e => bind (if json_eqb (snd kv) (to_base e) then ret e else upd (snd kv) e) (fun n => ret (fst kv, n))
                            end) items)
           (fun ch' => ret (ND id ch'))
  | _, _ => from_base j
  end.

Lemma mapM_spec {A B} (f:A -> M B) (g: B -> A) l :
  Forall (fun x => forall c, g (fst (f x c)) = x) l -> forall c, map g (fst (mapM f l c)) = l.
Proof.
  induction 1 as [|x r Hx Hr IH]; intros c; simpl; auto.
  unfold bind, ret. destruct (f x c) as [y c1] eqn:E1. destruct (mapM f r c1) as [ys c2] eqn:E2. simpl.
  f_equal. specialize (Hx c). rewrite E1 in Hx. exact Hx. specialize (IH c1). rewrite E2 in IH. exact IH.
Qed.
