(* MachineRefine.v — refinement theorems for the unbuffered machine (Machine.v):
   M2 mutator_writes_through, in_lop/in_dop_refines_plain, M3 step_refines_plain (CHANGED, see there),
   M4 root_clear_reset, M5 read_keeps_handles, M6 touch_is_noop.
   Parts: A ids under upd (upd_ids_r) · B list/dict bodies vs. plain ops · C handles as paths ·
          D arguments and update() · E the machine theorems. *)
From Coq Require Import List ZArith NArith Bool Lia Arith.
From SC Require Import Model.Val Model.Plain Model.Ops Model.Valid Model.Class Model.Tree Model.Machine.
From SC Require Import Proofs.TreeDefs Proofs.TreeLemmas Proofs.MachineDefs.
Import ListNotations.


(* ====================================================================== *)
(* PART A *)
(* ====================================================================== *)
(* MRIds.v — the in-place merge `upd` keeps node identities unique and below
   the fresh-id supply: every id of the result is an old id of the same node or
   a fresh one drawn from [nx, nx').  Holds for ANY data, also on error. *)

(* ------------------------------------------------------------------ *)
(* vocabulary                                                          *)
(* ------------------------------------------------------------------ *)

Definition lids (l : list node) : list nat := flat_map node_ids l.
Definition dids (d : list (key * node)) : list nat :=
  flat_map (fun kn : key * node => node_ids (snd kn)) d.

Definition ids_step (u : node -> nat -> node * nat * option err) : Prop :=
  forall ex nx ex' nx' e, u ex nx = (ex', nx', e) ->
    (forall i, In i (node_ids ex) -> i < nx) -> NoDup (node_ids ex) ->
    NoDup (node_ids ex') /\ (forall i, In i (node_ids ex') -> In i (node_ids ex) \/ nx <= i < nx') /\ nx <= nx'.

Lemma lids_cons n l : lids (n :: l) = node_ids n ++ lids l.
Proof. reflexivity. Qed.

Lemma dids_cons k n d : dids ((k, n) :: d) = node_ids n ++ dids d.
Proof. reflexivity. Qed.

Lemma node_ids_NL id c l : node_ids (NL id c l) = id :: lids l.
Proof. reflexivity. Qed.

Lemma node_ids_ND id c d : node_ids (ND id c d) = id :: dids d.
Proof. reflexivity. Qed.

(* ------------------------------------------------------------------ *)
(* small list facts                                                    *)
(* ------------------------------------------------------------------ *)

Lemma NoDup_app_inv' {A} (l1 l2 : list A) :
  NoDup (l1 ++ l2) -> NoDup l1 /\ NoDup l2 /\ (forall x, In x l1 -> ~ In x l2).
Proof.
  induction l1 as [|a l1 IH]; simpl; intros H.
  - split; [constructor|]. split; [exact H|]. intros x [].
  - inversion H as [|a' l' Hnin Hnd]; subst. destruct (IH Hnd) as [H1 [H2 H3]].
    split.
    + constructor; [|exact H1]. intros Hin. apply Hnin. apply in_or_app. left; exact Hin.
    + split; [exact H2|]. intros x [Hx|Hx] Hx2.
      * subst x. apply Hnin. apply in_or_app. right; exact Hx2.
      * apply (H3 x Hx Hx2).
Qed.

Lemma dids_In k n d i : In (k, n) d -> In i (node_ids n) -> In i (dids d).
Proof.
  intros Hin Hi. unfold dids. apply in_flat_map. exists (k, n). split; [exact Hin|exact Hi].
Qed.

Lemma dids_NoDup_In k n d : In (k, n) d -> NoDup (dids d) -> NoDup (node_ids n).
Proof.
  induction d as [|[k' v'] d IH]; simpl; intros Hin Hnd.
  - contradiction.
  - change (NoDup (node_ids v' ++ dids d)) in Hnd.
    apply NoDup_app_inv' in Hnd. destruct Hnd as [H1 [H2 _]].
    destruct Hin as [Hin|Hin].
    + inversion Hin; subst. exact H1.
    + apply IH; assumption.
Qed.

Lemma dids_filter (f : key * node -> bool) d :
  NoDup (dids d) ->
  NoDup (dids (filter f d)) /\ (forall i, In i (dids (filter f d)) -> In i (dids d)).
Proof.
  induction d as [|[k v] d IH]; intros Hnd.
  - simpl. split; [constructor|]. intros i [].
  - rewrite dids_cons in Hnd.
    apply NoDup_app_inv' in Hnd. destruct Hnd as [H1 [H2 H3]].
    destruct (IH H2) as [I1 I2].
    simpl filter. destruct (f (k, v)).
    + rewrite !dids_cons. split.
      * apply NoDup_app'; [exact H1|exact I1|].
        intros x Hx Hx2. apply (H3 x Hx). apply I2. exact Hx2.
      * intros i Hi. apply in_app_or in Hi. apply in_or_app.
        destruct Hi as [Hi|Hi]; [left; exact Hi|right; apply I2; exact Hi].
    + rewrite dids_cons. split; [exact I1|].
      intros i Hi. apply in_or_app. right. apply I2. exact Hi.
Qed.

(* ------------------------------------------------------------------ *)
(* dict_set                                                            *)
(* ------------------------------------------------------------------ *)

Lemma dict_set_ids d k n nx nx1 :
  NoDup (dids d) -> (forall i, In i (dids d) -> i < nx) -> NoDup (node_ids n) ->
  (forall i, In i (node_ids n) ->
     (exists ex, alookup k d = Some ex /\ In i (node_ids ex)) \/ nx <= i < nx1) ->
  NoDup (dids (dict_set d k n))
  /\ (forall i, In i (dids (dict_set d k n)) -> In i (dids d) \/ nx <= i < nx1).
Proof.
  induction d as [|[k' v'] d IH]; intros Hnd Hlt Hn Hsrc.
  - simpl dict_set. rewrite dids_cons. simpl. rewrite app_nil_r. split; [exact Hn|].
    intros i Hi. destruct (Hsrc i Hi) as [[ex [E _]]|Hf].
    + simpl in E. discriminate.
    + right; exact Hf.
  - rewrite dids_cons in Hnd, Hlt.
    destruct (NoDup_app_inv' _ _ Hnd) as [H1 [H2 H3]].
    simpl dict_set. simpl alookup in Hsrc. destruct (key_eqb k k') eqn:E.
    + rewrite !dids_cons. split.
      * apply NoDup_app'; [exact Hn|exact H2|].
        intros x Hx Hx2. destruct (Hsrc x Hx) as [[ex [Eex Hin]]|Hf].
        -- inversion Eex; subst ex. apply (H3 x Hin Hx2).
        -- assert (x < nx) by (apply Hlt; apply in_or_app; right; exact Hx2). lia.
      * intros i Hi. apply in_app_or in Hi. destruct Hi as [Hi|Hi].
        -- destruct (Hsrc i Hi) as [[ex [Eex Hin]]|Hf].
           ++ inversion Eex; subst ex. left. apply in_or_app. left; exact Hin.
           ++ right; exact Hf.
        -- left. apply in_or_app. right; exact Hi.
    + assert (Hlt2 : forall i, In i (dids d) -> i < nx).
      { intros i Hi. apply Hlt. apply in_or_app. right; exact Hi. }
      destruct (IH H2 Hlt2 Hn Hsrc) as [I1 I2].
      rewrite !dids_cons. split.
      * apply NoDup_app'; [exact H1|exact I1|].
        intros x Hx Hx2. destruct (I2 x Hx2) as [Hin|Hf].
        -- apply (H3 x Hx Hin).
        -- assert (x < nx) by (apply Hlt; apply in_or_app; left; exact Hx). lia.
      * intros i Hi. apply in_app_or in Hi. destruct Hi as [Hi|Hi].
        -- left. apply in_or_app. left; exact Hi.
        -- destruct (I2 i Hi) as [Hin|Hf].
           ++ left. apply in_or_app. right; exact Hin.
           ++ right; exact Hf.
Qed.

(* ------------------------------------------------------------------ *)
(* merge_one / upd_prefix / upd_entries, parameterised by the          *)
(* recursive function                                                  *)
(* ------------------------------------------------------------------ *)

Section UpdIds.
  Variable T : class_table.

  (* the `replace` branch of merge_one: ex0 is what is kept if validation fails *)
  Lemma replace_ids c wrapped nv (old : list nat) ex0 nx nx0 n nx1 e :
    nx <= nx0 -> NoDup (node_ids ex0) ->
    (forall i, In i (node_ids ex0) -> In i old \/ nx <= i < nx0) ->
    match validate (validators_of T c) wrapped with
    | Some e => (ex0, nx0, Some e)
    | None => let (n, nx1) := from_base T c nv nx0 in (n, nx1, None)
    end = (n, nx1, e) ->
    NoDup (node_ids n) /\ (forall i, In i (node_ids n) -> In i old \/ nx <= i < nx1) /\ nx <= nx1.
  Proof.
    intros Hle Hnd Hsrc H. destruct (validate (validators_of T c) wrapped) as [e0|].
    - inversion H; subst. split; [exact Hnd|]. split; [exact Hsrc|exact Hle].
    - pose proof (from_base_fresh T c nv nx0) as F.
      destruct (from_base T c nv nx0) as [n0 nx2]. simpl in F.
      inversion H; subst. destruct F as [F1 [F2 F3]].
      split; [exact F3|]. split; [|lia].
      intros i Hi. right. apply F2 in Hi. lia.
  Qed.

  Lemma merge_one_ids u c wrapped nv :
    ids_step (u nv) -> ids_step (merge_one T u c wrapped nv).
  Proof.
    intros Hu ex nx n nx1 e H Hlt Hnd. unfold merge_one in H. cbv beta zeta in H.
    destruct (skip_same nv ex).
    { inversion H; subst. split; [exact Hnd|]. split; [|lia]. intros i Hi; left; exact Hi. }
    destruct (node_is_container ex && negb (is_null nv)).
    - destruct (u nv ex nx) as [[ex' nx'] [e'|]] eqn:E.
      + destruct (Hu _ _ _ _ _ E Hlt Hnd) as [U1 [U2 U3]].
        destruct (err_is_value_error e').
        * eapply replace_ids; [exact U3|exact U1|exact U2|exact H].
        * inversion H; subst. split; [exact U1|]. split; [exact U2|exact U3].
      + inversion H; subst. exact (Hu _ _ _ _ _ E Hlt Hnd).
    - eapply replace_ids; [apply Nat.le_refl|exact Hnd| |exact H].
      intros i Hi; left; exact Hi.
  Qed.

  Lemma upd_prefix_ids u c dl :
    Forall (fun nv => ids_step (u nv)) dl ->
    forall l nx l' nx' e, upd_prefix T u c dl l nx = (l', nx', e) ->
      (forall i, In i (lids l) -> i < nx) -> NoDup (lids l) ->
      NoDup (lids l') /\ (forall i, In i (lids l') -> In i (lids l) \/ nx <= i < nx') /\ nx <= nx'.
  Proof.
    intros HF. induction HF as [|nv dl Hnv HF IH]; intros l nx l' nx' e H Hlt Hnd.
    - rewrite upd_prefix_nil in H. inversion H; subst.
      split; [constructor|]. split; [intros i []|lia].
    - destruct l as [|ex l].
      + rewrite upd_prefix_cons_nil in H.
        destruct (validate (validators_of T c) (VL (nv :: dl))) as [e0|].
        * inversion H; subst. split; [constructor|]. split; [intros i []|lia].
        * destruct (map_st (from_base T c) (nv :: dl) nx) as [tl nx1] eqn:E2.
          inversion H; subst. apply map_st_rel_intro in E2.
          destruct (map_st_rel_fresh _ node_ids _ _ _ _ E2) as [G1 [G2 G3]].
          { apply Forall_forall. intros a _ s. apply from_base_fresh. }
          split; [exact G3|]. split; [|exact G1].
          intros i Hi. right. apply G2. exact Hi.
      + rewrite upd_prefix_cons_cons in H. rewrite lids_cons in Hlt, Hnd.
        destruct (NoDup_app_inv' _ _ Hnd) as [H1 [H2 H3]].
        assert (Hlt1 : forall i, In i (node_ids ex) -> i < nx).
        { intros i Hi. apply Hlt. apply in_or_app. left; exact Hi. }
        assert (Hlt2 : forall i, In i (lids l) -> i < nx).
        { intros i Hi. apply Hlt. apply in_or_app. right; exact Hi. }
        destruct (merge_one T u c nv nv ex nx) as [[n nx1] [e1|]] eqn:E.
        * inversion H; subst.
          destruct (merge_one_ids u c nv nv Hnv _ _ _ _ _ E Hlt1 H1) as [M1 [M2 M3]].
          rewrite !lids_cons. split.
          -- apply NoDup_app'; [exact M1|exact H2|].
             intros x Hx Hx2. destruct (M2 x Hx) as [Hin|Hf].
             ++ apply (H3 x Hin Hx2).
             ++ apply Hlt2 in Hx2. lia.
          -- split; [|exact M3]. intros i Hi. apply in_app_or in Hi. destruct Hi as [Hi|Hi].
             ++ destruct (M2 i Hi) as [Hin|Hf].
                ** left. apply in_or_app. left; exact Hin.
                ** right; exact Hf.
             ++ left. apply in_or_app. right; exact Hi.
        * destruct (upd_prefix T u c dl l nx1) as [[l2 nx2] e2] eqn:E2.
          inversion H; subst.
          destruct (merge_one_ids u c nv nv Hnv _ _ _ _ _ E Hlt1 H1) as [M1 [M2 M3]].
          assert (Hlt3 : forall i, In i (lids l) -> i < nx1).
          { intros i Hi. apply Hlt2 in Hi. lia. }
          destruct (IH _ _ _ _ _ E2 Hlt3 H2) as [I1 [I2 I3]].
          rewrite !lids_cons. split.
          -- apply NoDup_app'; [exact M1|exact I1|].
             intros x Hx Hx2. destruct (M2 x Hx) as [Hin|Hf]; destruct (I2 x Hx2) as [Hin2|Hf2].
             ++ apply (H3 x Hin Hin2).
             ++ apply Hlt1 in Hin. lia.
             ++ apply Hlt2 in Hin2. lia.
             ++ lia.
          -- split; [|lia]. intros i Hi. apply in_app_or in Hi. destruct Hi as [Hi|Hi].
             ++ destruct (M2 i Hi) as [Hin|Hf].
                ** left. apply in_or_app. left; exact Hin.
                ** right; lia.
             ++ destruct (I2 i Hi) as [Hin|Hf].
                ** left. apply in_or_app. right; exact Hin.
                ** right; lia.
  Qed.

  Lemma upd_entries_ids u c dd :
    Forall (fun kv : key * val => ids_step (u (snd kv))) dd ->
    forall d nx d' nx' e, upd_entries T u c dd d nx = (d', nx', e) ->
      (forall i, In i (dids d) -> i < nx) -> NoDup (dids d) ->
      NoDup (dids d') /\ (forall i, In i (dids d') -> In i (dids d) \/ nx <= i < nx') /\ nx <= nx'.
  Proof.
    intros HF. induction HF as [|[k nv] dd Hnv HF IH]; intros d nx d' nx' e H Hlt Hnd.
    - rewrite upd_entries_nil in H. inversion H; subst.
      split; [exact Hnd|]. split; [|lia]. intros i Hi; left; exact Hi.
    - rewrite upd_entries_cons in H. simpl in Hnv.
      (* one step: the node n stored under k and the supply nx1 after it *)
      assert (Step : forall n nx1,
                 nx <= nx1 -> NoDup (node_ids n) ->
                 (forall i, In i (node_ids n) ->
                    (exists ex, alookup k d = Some ex /\ In i (node_ids ex)) \/ nx <= i < nx1) ->
                 NoDup (dids (dict_set d k n))
                 /\ (forall i, In i (dids (dict_set d k n)) -> In i (dids d) \/ nx <= i < nx1)
                 /\ (forall i, In i (dids (dict_set d k n)) -> i < nx1)).
      { intros n nx1 Hle Hn Hsrc.
        destruct (dict_set_ids d k n nx nx1 Hnd Hlt Hn Hsrc) as [D1 D2].
        split; [exact D1|]. split; [exact D2|].
        intros i Hi. destruct (D2 i Hi) as [Hin|Hf]; [apply Hlt in Hin; lia|lia]. }
      destruct (alookup k d) as [ex|] eqn:Ek.
      + pose proof (alookup_In _ _ _ Ek) as Hin.
        assert (Hltex : forall i, In i (node_ids ex) -> i < nx).
        { intros i Hi. apply Hlt. eapply dids_In; eauto. }
        pose proof (dids_NoDup_In _ _ _ Hin Hnd) as Hndex.
        destruct (merge_one T u c (VD [(k, nv)]) nv ex nx) as [[n nx1] e1] eqn:E.
        destruct (merge_one_ids u c (VD [(k, nv)]) nv Hnv _ _ _ _ _ E Hltex Hndex) as [M1 [M2 M3]].
        destruct (Step n nx1 M3 M1) as [D1 [D2 D3]].
        { intros i Hi. destruct (M2 i Hi) as [Hi2|Hf]; [left; eauto|right; exact Hf]. }
        destruct e1 as [e1|].
        * inversion H; subst. split; [exact D1|]. split; [exact D2|exact M3].
        * destruct (IH _ _ _ _ _ H D3 D1) as [I1 [I2 I3]].
          split; [exact I1|]. split; [|lia].
          intros i Hi. destruct (I2 i Hi) as [Hi2|Hf].
          -- destruct (D2 i Hi2) as [Hi3|Hf]; [left; exact Hi3|right; lia].
          -- right; lia.
      + destruct (validate (validators_of T c) (VD [(k, nv)])) as [e0|].
        * inversion H; subst. split; [exact Hnd|]. split; [|lia]. intros i Hi; left; exact Hi.
        * pose proof (from_base_fresh T c nv nx) as F.
          destruct (from_base T c nv nx) as [n nx1]. simpl in F. destruct F as [F1 [F2 F3]].
          destruct (Step n nx1 F1 F3) as [D1 [D2 D3]].
          { intros i Hi. right. apply F2. exact Hi. }
          destruct (IH _ _ _ _ _ H D3 D1) as [I1 [I2 I3]].
          split; [exact I1|]. split; [|lia].
          intros i Hi. destruct (I2 i Hi) as [Hi2|Hf].
          -- destruct (D2 i Hi2) as [Hi3|Hf]; [left; exact Hi3|right; lia].
          -- right; lia.
  Qed.

  Lemma upd_ids_all data : ids_step (upd T data).
  Proof.
    assert (Same : forall (ex : node) (nx : nat) ex' nx' (e : option err),
               (ex, nx, Some EValue) = (ex', nx', e) ->
               NoDup (node_ids ex) ->
               NoDup (node_ids ex')
               /\ (forall i, In i (node_ids ex') -> In i (node_ids ex) \/ nx <= i < nx') /\ nx <= nx').
    { intros ex nx ex' nx' e H Hnd. inversion H; subst.
      split; [exact Hnd|]. split; [|lia]. intros i Hi; left; exact Hi. }
    induction data as [s|dl IH|dd IH] using val_ind2; intros ex nx ex' nx' e H Hlt Hnd.
    - rewrite upd_mismatch in H.
      + eapply Same; eauto.
      + destruct ex; simpl; auto; left; discriminate.
    - destruct ex as [v|id c l|id c d].
      + rewrite upd_mismatch in H; [|right; reflexivity]. eapply Same; eauto.
      + rewrite upd_NL_VL in H.
        destruct (upd_prefix T (fun v => upd T v) c dl l nx) as [[l' nx2] e2] eqn:E.
        inversion H; subst. rewrite node_ids_NL in *.
        inversion Hnd as [|a l0 Hnin Hnd2]; subst.
        assert (Hlt2 : forall i, In i (lids l) -> i < nx).
        { intros i Hi. apply Hlt. right; exact Hi. }
        destruct (upd_prefix_ids (fun v => upd T v) c dl IH _ _ _ _ _ E Hlt2 Hnd2) as [P1 [P2 P3]].
        split.
        * constructor; [|exact P1]. intros Hin. destruct (P2 id Hin) as [Hi|Hf].
          -- contradiction.
          -- assert (id < nx) by (apply Hlt; left; reflexivity). lia.
        * split; [|exact P3]. intros i [Hi|Hi].
          -- left; left; exact Hi.
          -- destruct (P2 i Hi) as [Hi2|Hf]; [left; right; exact Hi2|right; exact Hf].
      + rewrite upd_mismatch in H; [|left; discriminate]. eapply Same; eauto.
    - destruct ex as [v|id c l|id c d].
      + rewrite upd_mismatch in H; [|right; reflexivity]. eapply Same; eauto.
      + rewrite upd_mismatch in H; [|left; discriminate]. eapply Same; eauto.
      + rewrite upd_ND_VD in H.
        destruct (upd_entries T (fun v => upd T v) c dd d nx) as [[d' nx2] e2] eqn:E.
        rewrite node_ids_ND in Hlt, Hnd.
        inversion Hnd as [|a l0 Hnin Hnd2]; subst.
        assert (Hlt2 : forall i, In i (dids d) -> i < nx).
        { intros i Hi. apply Hlt. right; exact Hi. }
        destruct (upd_entries_ids (fun v => upd T v) c dd IH _ _ _ _ _ E Hlt2 Hnd2) as [P1 [P2 P3]].
        assert (Hid : id < nx) by (apply Hlt; left; reflexivity).
        destruct e2 as [e2|]; inversion H; subst; rewrite !node_ids_ND.
        * split.
          -- constructor; [|exact P1]. intros Hin. destruct (P2 id Hin) as [Hi|Hf]; [contradiction|lia].
          -- split; [|exact P3]. intros i [Hi|Hi].
             ++ left; left; exact Hi.
             ++ destruct (P2 i Hi) as [Hi2|Hf]; [left; right; exact Hi2|right; exact Hf].
        * unfold keep_keys.
          destruct (dids_filter
                      (fun kn : key * node => match alookup (fst kn) dd with Some _ => true | None => false end)
                      d' P1) as [K1 K2].
          split.
          -- constructor; [|exact K1]. intros Hin. apply K2 in Hin.
             destruct (P2 id Hin) as [Hi|Hf]; [contradiction|lia].
          -- split; [|exact P3]. intros i [Hi|Hi].
             ++ left; left; exact Hi.
             ++ apply K2 in Hi.
                destruct (P2 i Hi) as [Hi2|Hf]; [left; right; exact Hi2|right; exact Hf].
  Qed.
End UpdIds.

(* ------------------------------------------------------------------ *)
(* main theorem                                                        *)
(* ------------------------------------------------------------------ *)

Theorem upd_ids_r T data n nx n' nx' e :
  upd T data n nx = (n', nx', e) ->
  (forall i, In i (node_ids n) -> i < nx) -> NoDup (node_ids n) ->
  NoDup (node_ids n') /\ (forall i, In i (node_ids n') -> i < nx') /\ nx <= nx'.
Proof.
  intros H Hlt Hnd.
  destruct (upd_ids_all T data _ _ _ _ _ H Hlt Hnd) as [A1 [A2 A3]].
  split; [exact A1|]. split; [|exact A3].
  intros i Hi. destruct (A2 i Hi) as [Hin|Hf].
  - apply Hlt in Hin. lia.
  - lia.
Qed.

(* ====================================================================== *)
(* PART B *)
(* ====================================================================== *)
(* MROps.v — the body of every list / dict operation on a tree node is the
   built-in operation on the plain view ([to_base]).  One commutation lemma per
   generic operation of Plain.v ("op on [map f l] = map f of op on [l]"), then
   the two refinement theorems for [in_lop] / [in_dop]. *)

(* ------------------------------------------------------------------ *)
(* results                                                             *)
(* ------------------------------------------------------------------ *)

Definition rmap {A B} (g : A -> B) (r : res A) : res B :=
  match r with Ok a => Ok (g a) | Err e => Err e end.

(* ------------------------------------------------------------------ *)
(* generic list operations commute with map                            *)
(* ------------------------------------------------------------------ *)

Section ListMap.
  Context {A B : Type}.
  Variable f : A -> B.

  Lemma zlen_map (l : list A) : zlen (map f l) = zlen l.
  Proof. unfold zlen. rewrite map_length. reflexivity. Qed.

  Lemma list_get_map (l : list A) i : list_get (map f l) i = rmap f (list_get l i).
  Proof.
    unfold list_get. rewrite zlen_map.
    destruct (norm_idx (zlen l) i) as [j|]; [|reflexivity].
    rewrite nth_error_map. destruct (nth_error l j); reflexivity.
  Qed.

  Lemma set_nth_map (l : list A) j x : set_nth (map f l) j (f x) = map f (set_nth l j x).
  Proof.
    revert j. induction l as [|h t IH]; intros j; cbn [map set_nth].
    - destruct j; reflexivity.
    - destruct j as [|j]; cbn [map]; [reflexivity|]. rewrite IH. reflexivity.
  Qed.

  Lemma del_nth_map (l : list A) j : del_nth (map f l) j = map f (del_nth l j).
  Proof.
    revert j. induction l as [|h t IH]; intros j; cbn [map del_nth].
    - destruct j; reflexivity.
    - destruct j as [|j]; cbn [map]; [reflexivity|]. rewrite IH. reflexivity.
  Qed.

  Lemma list_set_map (l : list A) i x :
    list_set (map f l) i (f x) = rmap (map f) (list_set l i x).
  Proof.
    unfold list_set. rewrite zlen_map.
    destruct (norm_idx (zlen l) i) as [j|]; cbn [rmap]; [|reflexivity].
    rewrite set_nth_map. reflexivity.
  Qed.

  Lemma list_del_map (l : list A) i : list_del (map f l) i = rmap (map f) (list_del l i).
  Proof.
    unfold list_del. rewrite zlen_map.
    destruct (norm_idx (zlen l) i) as [j|]; cbn [rmap]; [|reflexivity].
    rewrite del_nth_map. reflexivity.
  Qed.

  Lemma list_insert_map (l : list A) i x :
    list_insert (map f l) i (f x) = map f (list_insert l i x).
  Proof.
    unfold list_insert. rewrite zlen_map, map_app, firstn_map. cbn [map].
    rewrite skipn_map. reflexivity.
  Qed.

  Lemma list_pop_map (l : list A) i :
    list_pop (map f l) i = rmap (fun p : A * list A => (f (fst p), map f (snd p))) (list_pop l i).
  Proof.
    unfold list_pop. rewrite zlen_map.
    destruct (norm_idx (zlen l) i) as [j|]; [|reflexivity].
    rewrite nth_error_map. destruct (nth_error l j) as [x|]; cbn [option_map rmap fst snd]; [|reflexivity].
    rewrite del_nth_map. reflexivity.
  Qed.

  Section WithProbe.
    Context {C : Type}.
    Variable eqA : A -> C -> bool.
    Variable eqB : B -> C -> bool.
    Hypothesis eq_compat : forall h x, eqB (f h) x = eqA h x.

    Lemma list_remove_map (l : list A) x :
      list_remove eqB (map f l) x = rmap (map f) (list_remove eqA l x).
    Proof.
      induction l as [|h t IH]; cbn [map list_remove rmap]; [reflexivity|].
      rewrite eq_compat. destruct (eqA h x); [reflexivity|].
      rewrite IH. destruct (list_remove eqA t x); reflexivity.
    Qed.

    Lemma list_index_from_map (l : list A) x i :
      list_index_from eqB (map f l) x i = list_index_from eqA l x i.
    Proof.
      revert i. induction l as [|h t IH]; intros i; cbn [map list_index_from]; [reflexivity|].
      rewrite eq_compat. destruct (eqA h x); [reflexivity|]. apply IH.
    Qed.

    Lemma list_index_map (l : list A) x : list_index eqB (map f l) x = list_index eqA l x.
    Proof. apply list_index_from_map. Qed.

    Lemma filter_probe_length (l : list A) x :
      length (filter (fun h => eqB h x) (map f l)) = length (filter (fun h => eqA h x) l).
    Proof.
      induction l as [|h t IH]; cbn [map filter]; [reflexivity|].
      rewrite eq_compat. destruct (eqA h x); cbn [length]; rewrite IH; reflexivity.
    Qed.

    Lemma list_count_map (l : list A) x : list_count eqB (map f l) x = list_count eqA l x.
    Proof. unfold list_count, zlen. rewrite filter_probe_length. reflexivity. Qed.

    Lemma list_contains_map (l : list A) x :
      list_contains eqB (map f l) x = list_contains eqA l x.
    Proof.
      unfold list_contains. induction l as [|h t IH]; cbn [map existsb]; [reflexivity|].
      rewrite eq_compat, IH. reflexivity.
    Qed.
  End WithProbe.

  Lemma pick_map (l : list A) (is : list nat) : pick (map f l) is = map f (pick l is).
  Proof.
    induction is as [|i is IH]; cbn [pick map]; [reflexivity|].
    rewrite nth_error_map. destruct (nth_error l i); cbn [option_map map]; rewrite IH; reflexivity.
  Qed.

  Lemma list_getslice_map (l : list A) s :
    list_getslice (map f l) s = rmap (map f) (list_getslice l s).
  Proof.
    unfold list_getslice. rewrite zlen_map.
    destruct (slice_indices (zlen l) s) as [is|e]; cbn [rmap]; [|reflexivity].
    rewrite pick_map. reflexivity.
  Qed.

  Lemma drop_indices_map (l : list A) is pos :
    drop_indices (map f l) is pos = map f (drop_indices l is pos).
  Proof.
    revert pos. induction l as [|h t IH]; intros pos; cbn [map drop_indices]; [reflexivity|].
    destruct (existsb (Nat.eqb pos) is); cbn [map]; rewrite IH; reflexivity.
  Qed.

  Lemma list_delslice_map (l : list A) s :
    list_delslice (map f l) s = rmap (map f) (list_delslice l s).
  Proof.
    unfold list_delslice. rewrite zlen_map.
    destruct (slice_indices (zlen l) s) as [is|e]; cbn [rmap]; [|reflexivity].
    rewrite drop_indices_map. reflexivity.
  Qed.

  Lemma assign_at_map (l : list A) is vs :
    assign_at (map f l) is (map f vs) = map f (assign_at l is vs).
  Proof.
    revert l vs. induction is as [|i is IH]; intros l vs; cbn [assign_at]; [reflexivity|].
    destruct vs as [|v vs]; cbn [map]; [reflexivity|].
    rewrite set_nth_map. apply IH.
  Qed.

  Lemma list_setslice_map (l : list A) s vs :
    list_setslice (map f l) s (map f vs) = rmap (map f) (list_setslice l s vs).
  Proof.
    unfold list_setslice. rewrite !zlen_map.
    destruct (slice_adjust (zlen l) s) as [[[[start stop] step] cnt]|e]; cbn [rmap]; [|reflexivity].
    destruct (Z.eqb step 1).
    - cbn [rmap]. rewrite !map_app, firstn_map, skipn_map. reflexivity.
    - destruct (Z.eqb (zlen vs) cnt); cbn [rmap]; [|reflexivity].
      rewrite assign_at_map. reflexivity.
  Qed.
End ListMap.

(* ------------------------------------------------------------------ *)
(* generic dict operations commute with mapping the values             *)
(* ------------------------------------------------------------------ *)

Definition dmap {A B} (g : A -> B) (d : list (key * A)) : list (key * B) :=
  map (fun kn : key * A => (fst kn, g (snd kn))) d.

Section DictMap.
  Context {A B : Type}.
  Variable g : A -> B.

  Lemma alookup_dmap k (d : list (key * A)) : alookup k (dmap g d) = option_map g (alookup k d).
  Proof. apply alookup_map. Qed.

  Lemma dict_has_dmap (d : list (key * A)) k : dict_has (dmap g d) k = dict_has d k.
  Proof. unfold dict_has. rewrite alookup_dmap. destruct (alookup k d); reflexivity. Qed.

  Lemma dict_get_dmap (d : list (key * A)) k : dict_get (dmap g d) k = rmap g (dict_get d k).
  Proof. unfold dict_get. rewrite alookup_dmap. destruct (alookup k d); reflexivity. Qed.

  Lemma dict_set_dmap (d : list (key * A)) k v :
    dict_set (dmap g d) k (g v) = dmap g (dict_set d k v).
  Proof.
    unfold dmap. induction d as [|[k' v'] d IH]; cbn [map dict_set fst snd]; [reflexivity|].
    destruct (key_eqb k k'); cbn [map fst snd]; [reflexivity|]. rewrite IH. reflexivity.
  Qed.

  Lemma dict_remove_dmap (d : list (key * A)) k :
    dict_remove (dmap g d) k = dmap g (dict_remove d k).
  Proof.
    unfold dmap. induction d as [|[k' v'] d IH]; cbn [map dict_remove fst snd]; [reflexivity|].
    destruct (key_eqb k k'); cbn [map fst snd]; [reflexivity|]. rewrite IH. reflexivity.
  Qed.

  Lemma dict_del_dmap (d : list (key * A)) k :
    dict_del (dmap g d) k = rmap (dmap g) (dict_del d k).
  Proof.
    unfold dict_del. rewrite dict_has_dmap. destruct (dict_has d k); cbn [rmap]; [|reflexivity].
    rewrite dict_remove_dmap. reflexivity.
  Qed.

  Lemma dict_pop_dmap (d : list (key * A)) k :
    dict_pop (dmap g d) k = (option_map g (fst (dict_pop d k)), dmap g (snd (dict_pop d k))).
  Proof.
    unfold dict_pop. rewrite alookup_dmap.
    destruct (alookup k d); cbn [option_map fst snd]; [|reflexivity].
    rewrite dict_remove_dmap. reflexivity.
  Qed.

  Lemma dict_popitem_dmap (d : list (key * A)) :
    dict_popitem (dmap g d)
    = rmap (fun p : (key * A) * list (key * A) => ((fst (fst p), g (snd (fst p))), dmap g (snd p)))
           (dict_popitem d).
  Proof.
    unfold dict_popitem, dmap. rewrite <- map_rev.
    destruct (rev d) as [|kv r]; cbn [map rmap fst snd]; [reflexivity|].
    rewrite map_rev. reflexivity.
  Qed.

  Lemma dict_keys_dmap (d : list (key * A)) : dict_keys (dmap g d) = dict_keys d.
  Proof. unfold dict_keys, dmap. rewrite map_map. reflexivity. Qed.
End DictMap.

(* ------------------------------------------------------------------ *)
(* from_base and the plain view                                        *)
(* ------------------------------------------------------------------ *)

Lemma from_base_to_base T c v nx n nx1 : from_base T c v nx = (n, nx1) -> to_base n = v.
Proof.
  intros E. pose proof (to_base_from_base T c v nx) as H. rewrite E in H. exact H.
Qed.

Lemma Forall2_to_base_map (vs : list val) (ns : list node) :
  Forall2 (fun v n => to_base n = v) vs ns -> map to_base ns = vs.
Proof.
  intros H. induction H as [|v n vs ns Hv _ IH]; cbn [map]; [reflexivity|].
  rewrite Hv, IH. reflexivity.
Qed.

Lemma map_st_from_base_to_base T c vs nx ns nx1 :
  map_st (from_base T c) vs nx = (ns, nx1) -> map to_base ns = vs.
Proof.
  intros E. apply Forall2_to_base_map.
  eapply map_st_rel_Forall2; [apply map_st_rel_intro; exact E|].
  apply Forall_forall. intros v _ s. apply to_base_from_base.
Qed.

(* iter(node) against iter(plain view of the node) *)
Lemma elems_of_node_spec n :
  match iter_val (to_base n) with
  | Ok vs => exists es, elems_of_node n = Ok es /\ map to_base es = vs
  | Err e => elems_of_node n = Err e
  end.
Proof.
  destruct n as [v|id c kids|id c d]; cbn [to_base elems_of_node].
  - destruct (iter_val v) as [vs|e]; cbn [bind]; [|reflexivity].
    exists (map NV vs). split; [reflexivity|].
    rewrite map_map. cbn [to_base]. apply map_id.
  - cbn [iter_val]. exists kids. split; reflexivity.
  - cbn [iter_val]. eexists. split; [reflexivity|].
    rewrite !map_map. reflexivity.
Qed.

Lemma node_eq_probe_compat h x : veq_py (to_base h) x = node_eq_probe h x.
Proof. reflexivity. Qed.

(* ------------------------------------------------------------------ *)
(* the two refinement theorems                                         *)
(* ------------------------------------------------------------------ *)

Theorem in_lop_refines_plain T id c l o nx :
  match o with LReset _ => False | _ => True end ->
  let '((r, h), n', nx') := in_lop T id c l o nx in
  r = fst (plain_lop (map to_base l) o) /\ to_base n' = VL (snd (plain_lop (map to_base l) o)).
Proof.
  intros Hpre.
  pose proof (fun x : val => @list_index_map node val to_base val node_eq_probe
                (fun h y => veq_py h y) node_eq_probe_compat l x) as Hidx.
  pose proof (fun x : val => @list_count_map node val to_base val node_eq_probe
                (fun h y => veq_py h y) node_eq_probe_compat l x) as Hcnt.
  pose proof (fun x : val => @list_contains_map node val to_base val node_eq_probe
                (fun h y => veq_py h y) node_eq_probe_compat l x) as Hcon.
  pose proof (fun x : val => @list_remove_map node val to_base val node_eq_probe
                (fun h y => veq_py h y) node_eq_probe_compat l x) as Hrem.
  destruct o as [i|s| | | | |v|v|v|v|cm v|i v|s v|i|s|i v|v|v|v|v|i| | |v];
    unfold in_lop, plain_lop, plain_res, elem_res; cbv beta zeta.
  - (* LGet *)
    rewrite list_get_map. destruct (list_get l i) as [n|e]; cbn [rmap fst snd to_base]; auto.
  - (* LGetSlice *)
    rewrite list_getslice_map.
    destruct (list_getslice l s) as [x|e]; cbn [rmap bind fst snd to_base]; auto.
  - (* LLen *) rewrite zlen_map. cbn [fst snd to_base]. auto.
  - (* LCall *) cbn [fst snd to_base]. auto.
  - (* LIter *) cbn [fst snd to_base]. auto.
  - (* LReversed *) cbn [fst snd to_base]. auto.
  - (* LIndex *) rewrite Hidx. cbn [fst snd to_base]. auto.
  - (* LCount *) rewrite Hcnt. cbn [fst snd to_base]. auto.
  - (* LContains *) rewrite Hcon. cbn [fst snd to_base]. auto.
  - (* LEq *) cbn [fst snd to_base]. auto.
  - (* LCmp *) cbn [fst snd to_base]. auto.
  - (* LSet *)
    destruct (from_base T c v nx) as [n nx1] eqn:E.
    apply from_base_to_base in E. subst v.
    rewrite list_set_map. destruct (list_set l i n) as [l'|e]; cbn [rmap fst snd to_base]; auto.
  - (* LSetSlice *)
    destruct (from_base T c v nx) as [n nx1] eqn:E.
    apply from_base_to_base in E. subst v.
    rewrite zlen_map.
    destruct (slice_adjust (zlen l) s) as [q|e]; cbn [bind]; [|cbn [fst snd to_base]; auto].
    pose proof (elems_of_node_spec n) as He.
    destruct (iter_val (to_base n)) as [vs|e].
    + destruct He as [es [He Hm]]. rewrite He. subst vs. cbn [bind].
      rewrite list_setslice_map.
      destruct (list_setslice l s es) as [l'|e]; cbn [rmap fst snd to_base]; auto.
    + rewrite He. cbn [bind fst snd to_base]. auto.
  - (* LDel *)
    rewrite list_del_map. destruct (list_del l i) as [l'|e]; cbn [rmap fst snd to_base]; auto.
  - (* LDelSlice *)
    rewrite list_delslice_map.
    destruct (list_delslice l s) as [l'|e]; cbn [rmap fst snd to_base]; auto.
  - (* LInsert *)
    destruct (from_base T c v nx) as [n nx1] eqn:E.
    apply from_base_to_base in E. subst v.
    rewrite list_insert_map. cbn [fst snd to_base]. auto.
  - (* LAppend *)
    destruct (from_base T c v nx) as [n nx1] eqn:E.
    apply from_base_to_base in E. subst v.
    cbn [fst snd to_base]. rewrite map_app. auto.
  - (* LExtend *)
    destruct (iter_val v) as [vs|e]; cbn [bind]; [|cbn [fst snd to_base]; auto].
    destruct (map_st (from_base T c) vs nx) as [ns nx1] eqn:E.
    apply map_st_from_base_to_base in E. subst vs.
    cbn [fst snd to_base]. rewrite map_app. auto.
  - (* LIAdd *)
    destruct (iter_val v) as [vs|e]; cbn [bind]; [|cbn [fst snd to_base]; auto].
    destruct (map_st (from_base T c) vs nx) as [ns nx1] eqn:E.
    apply map_st_from_base_to_base in E. subst vs.
    cbn [fst snd to_base]. rewrite map_app. auto.
  - (* LRemove *)
    rewrite Hrem.
    destruct (list_remove node_eq_probe l v) as [l'|e]; cbn [rmap fst snd to_base]; auto.
  - (* LPop *)
    rewrite list_pop_map.
    destruct (list_pop l match i with Some z => z | None => (-1)%Z end) as [[n l']|e];
      cbn [rmap fst snd to_base]; auto.
  - (* LReverse *) cbn [fst snd to_base]. rewrite map_rev. auto.
  - (* LClear *) cbn [fst snd to_base map]. auto.
  - (* LReset *) contradiction.
Qed.

Theorem in_dop_refines_plain T id c d o nx :
  match o with
  | DReset _ | DUpdate _ => False
  | DSetdefault k v => validate (validators_of T c) (VD [(k, v)]) = None
  | _ => True end ->
  let '((r, h), n', nx') := in_dop T id c d o nx in
  r = fst (plain_dop (map (fun kn : key * node => (fst kn, to_base (snd kn))) d) o)
  /\ to_base n' = VD (snd (plain_dop (map (fun kn : key * node => (fst kn, to_base (snd kn))) d) o)).
Proof.
  intros Hpre.
  change (map (fun kn : key * node => (fst kn, to_base (snd kn))) d) with (dmap to_base d).
  destruct o as [k|k dflt| | | | | | |k|v|k v|k|k| | |v|k v|v];
    unfold in_dop, plain_dop, plain_res, elem_res; cbv beta zeta;
    change (map (fun kn : key * node => (fst kn, to_base (snd kn))) d) with (dmap to_base d).
  - (* DGet *)
    rewrite dict_get_dmap. destruct (dict_get d k) as [n|e]; cbn [rmap fst snd to_base]; auto.
  - (* DGetDefault *)
    rewrite alookup_dmap. destruct (alookup k d) as [n|]; cbn [option_map fst snd to_base]; auto.
  - (* DLen *) unfold dmap at 1. rewrite zlen_map. cbn [fst snd to_base]. auto.
  - (* DCall *) cbn [fst snd to_base]. auto.
  - (* DIter *) rewrite dict_keys_dmap. cbn [fst snd to_base]. auto.
  - (* DKeys *) rewrite dict_keys_dmap. cbn [fst snd to_base]. auto.
  - (* DValues *) cbn [fst snd to_base]. auto.
  - (* DItems *) cbn [fst snd to_base]. auto.
  - (* DContains *) rewrite dict_has_dmap. cbn [fst snd to_base]. auto.
  - (* DEq *) cbn [fst snd to_base]. auto.
  - (* DSet *)
    destruct (from_base T c v nx) as [n nx1] eqn:E.
    apply from_base_to_base in E. subst v.
    rewrite dict_set_dmap. cbn [fst snd to_base]. auto.
  - (* DDel *)
    rewrite dict_del_dmap. destruct (dict_del d k) as [d'|e]; cbn [rmap fst snd to_base]; auto.
  - (* DPop *)
    rewrite dict_pop_dmap. unfold dict_pop.
    destruct (alookup k d) as [n|]; cbn [option_map fst snd to_base]; auto.
  - (* DPopitem *)
    rewrite dict_popitem_dmap.
    destruct (dict_popitem d) as [[[k n] d']|e]; cbn [rmap fst snd to_base]; auto.
  - (* DClear *) cbn [fst snd to_base map]. auto.
  - (* DUpdate *) contradiction.
  - (* DSetdefault *)
    rewrite alookup_dmap. destruct (alookup k d) as [n|]; cbn [option_map fst snd to_base]; auto.
    rewrite Hpre.
    destruct (from_base T c v nx) as [n nx1] eqn:E.
    apply from_base_to_base in E. subst v.
    rewrite dict_set_dmap. cbn [fst snd to_base]. auto.
  - (* DReset *) contradiction.
Qed.

(* ====================================================================== *)
(* PART C *)
(* ====================================================================== *)
(* PART B — handles as paths: find_node / replace_node vs. plain_at; VEq congruence; update() *)

(* ---------- nlookup / nset ---------- *)
Lemma nlookup_nset_same {A} k (v : A) l : nlookup k (nset k v l) = Some v.
Proof.
  induction l as [|[k' v'] l IH]; cbn [nset nlookup].
  - rewrite Nat.eqb_refl. reflexivity.
  - destruct (Nat.eqb k k') eqn:E; cbn [nlookup].
    + rewrite Nat.eqb_refl. reflexivity.
    + rewrite E. exact IH.
Qed.

Lemma nlookup_nset_other {A} k k0 (v : A) l : k0 <> k -> nlookup k0 (nset k v l) = nlookup k0 l.
Proof.
  intros Hne. induction l as [|[k' v'] l IH]; cbn [nset nlookup].
  - apply Nat.eqb_neq in Hne. rewrite Hne. reflexivity.
  - destruct (Nat.eqb k k') eqn:E; cbn [nlookup].
    + apply Nat.eqb_eq in E. subst k'. apply Nat.eqb_neq in Hne. rewrite Hne. reflexivity.
    + destruct (Nat.eqb k0 k'); [reflexivity|exact IH].
Qed.

(* ---------- NoDup helpers ---------- *)
Lemma NoDup_app_inv {A} (a b : list A) :
  NoDup (a ++ b) -> NoDup a /\ NoDup b /\ (forall x, In x a -> ~ In x b).
Proof.
  induction a as [|x a IH]; cbn; intros H.
  - split; [constructor|]. split; [exact H|]. intros x [].
  - inversion H as [|? ? Hn Hd]; subst. destruct (IH Hd) as [A1 [A2 A3]].
    split. { constructor; [|exact A1]. intros Hin. apply Hn. apply in_or_app; auto. }
    split; [exact A2|]. intros y [<-|Hy] Hb.
    + apply Hn. apply in_or_app; auto.
    + exact (A3 y Hy Hb).
Qed.

Lemma NoDup_flat_map_In {A B} (f : A -> list B) l x :
  NoDup (flat_map f l) -> In x l -> NoDup (f x).
Proof.
  induction l as [|a l IH]; cbn; intros Hd Hin; [contradiction|].
  apply NoDup_app_inv in Hd. destruct Hd as [D1 [D2 _]].
  destruct Hin as [<-|Hin]; auto.
Qed.

Lemma NoDup_flat_map_same {A B} (f : A -> list B) l x y h :
  NoDup (flat_map f l) -> In x l -> In y l -> In h (f x) -> In h (f y) -> x = y.
Proof.
  induction l as [|a l IH]; cbn; intros Hd Hx Hy Hhx Hhy; [contradiction|].
  apply NoDup_app_inv in Hd. destruct Hd as [D1 [D2 D3]].
  destruct Hx as [<-|Hx], Hy as [<-|Hy].
  - reflexivity.
  - exfalso. apply (D3 h Hhx). apply in_flat_map. eauto.
  - exfalso. apply (D3 h Hhy). apply in_flat_map. eauto.
  - auto.
Qed.

(* ---------- find_node ---------- *)
Lemma find_in_list_Some {A} (f : A -> option node) l r :
  find_in_list f l = Some r -> exists x, In x l /\ f x = Some r.
Proof.
  induction l as [|x l IH]; cbn; intros H; [discriminate|].
  destruct (f x) eqn:E.
  - inversion H; subst. exists x. auto.
  - destruct (IH H) as [y [Hy1 Hy2]]. exists y. auto.
Qed.

Lemma find_node_NL h id c l :
  find_node h (NL id c l) = if Nat.eqb id h then Some (NL id c l) else find_in_list (find_node h) l.
Proof. reflexivity. Qed.
Lemma find_node_ND h id c d :
  find_node h (ND id c d) = if Nat.eqb id h then Some (ND id c d)
                            else find_in_list (fun kn : key * node => find_node h (snd kn)) d.
Proof. reflexivity. Qed.
Lemma replace_node_NL h r id c l :
  replace_node h r (NL id c l) = if Nat.eqb id h then r else NL id c (map (replace_node h r) l).
Proof. reflexivity. Qed.
Lemma replace_node_ND h r id c d :
  replace_node h r (ND id c d) = if Nat.eqb id h then r
    else ND id c (map (fun kn : key * node => (fst kn, replace_node h r (snd kn))) d).
Proof. reflexivity. Qed.

Lemma find_node_In h n : forall m, find_node h n = Some m -> node_id m = Some h /\ In h (node_ids n).
Proof.
  induction n as [v|id c l IH|id c d IH] using node_ind2; intros m H.
  - discriminate.
  - rewrite find_node_NL in H. destruct (Nat.eqb id h) eqn:E.
    + apply Nat.eqb_eq in E. inversion H; subst. cbn. auto.
    + apply find_in_list_Some in H. destruct H as [x [Hx Hf]].
      rewrite Forall_forall in IH. destruct (IH x Hx m Hf) as [A B]. split; [exact A|].
      cbn. right. apply in_flat_map. eauto.
  - rewrite find_node_ND in H. destruct (Nat.eqb id h) eqn:E.
    + apply Nat.eqb_eq in E. inversion H; subst. cbn. auto.
    + apply find_in_list_Some in H. destruct H as [x [Hx Hf]].
      rewrite Forall_forall in IH. destruct (IH x Hx m Hf) as [A B]. split; [exact A|].
      cbn. right. apply in_flat_map. eauto.
Qed.

Lemma find_node_path h root : forall n,
  node_keys_unique root = true -> find_node h root = Some n ->
  exists p, node_at p root = Some n /\ node_id n = Some h.
Proof.
  induction root as [v|id c l IH|id c d IH] using node_ind2; intros n Hu H.
  - discriminate.
  - rewrite find_node_NL in H. destruct (Nat.eqb id h) eqn:E.
    + apply Nat.eqb_eq in E. inversion H; subst. exists []. cbn. auto.
    + apply find_in_list_Some in H. destruct H as [x [Hx Hf]].
      cbn [node_keys_unique] in Hu. rewrite forallb_forall in Hu.
      rewrite Forall_forall in IH. destruct (IH x Hx n (Hu x Hx) Hf) as [p [P1 P2]].
      apply In_nth_error in Hx. destruct Hx as [i Hi].
      exists (PIdx i :: p). cbn [node_at node_child]. rewrite Hi. auto.
  - rewrite find_node_ND in H. destruct (Nat.eqb id h) eqn:E.
    + apply Nat.eqb_eq in E. inversion H; subst. exists []. cbn. auto.
    + apply find_in_list_Some in H. destruct H as [[k x] [Hx Hf]]. cbn [snd] in Hf.
      cbn [node_keys_unique] in Hu. apply andb_true_iff in Hu. destruct Hu as [Hku Hu].
      rewrite forallb_forall in Hu.
      rewrite Forall_forall in IH. destruct (IH (k, x) Hx n (Hu (k, x) Hx) Hf) as [p [P1 P2]].
      exists (PKey k :: p). cbn [node_at node_child].
      rewrite (In_alookup_unique _ _ _ Hku Hx). auto.
Qed.

(* ---------- sub-nodes inherit the tree's properties ---------- *)
Lemma node_child_incl s n m : node_child s n = Some m ->
  incl (node_ids m) (node_ids n) /\ incl (node_classes m) (node_classes n).
Proof.
  destruct s as [k|i], n as [v|id c l|id c d]; cbn; intros H; try discriminate.
  - apply alookup_In in H. split; intros x Hx; right; apply in_flat_map; exists (k, m); auto.
  - apply nth_error_In in H. split; intros x Hx; right; apply in_flat_map; exists m; auto.
Qed.

Lemma node_child_nku s n m :
  node_child s n = Some m -> node_keys_unique n = true -> node_keys_unique m = true.
Proof.
  destruct s as [k|i], n as [v|id c l|id c d]; cbn; intros H U; try discriminate.
  - apply andb_true_iff in U. destruct U as [_ U]. rewrite forallb_forall in U.
    apply alookup_In in H. apply (U (k, m) H).
  - rewrite forallb_forall in U. apply nth_error_In in H. auto.
Qed.

Lemma node_child_nodup s n m :
  node_child s n = Some m -> NoDup (node_ids n) -> NoDup (node_ids m).
Proof.
  destruct s as [k|i], n as [v|id c l|id c d]; cbn; intros H U; try discriminate;
    inversion U as [|? ? _ U']; subst.
  - apply alookup_In in H.
    apply (NoDup_flat_map_In (fun kn : key * node => node_ids (snd kn)) d (k, m) U' H).
  - apply nth_error_In in H. apply (NoDup_flat_map_In node_ids l m U' H).
Qed.

Lemma node_at_sub p : forall root n, node_at p root = Some n ->
  incl (node_ids n) (node_ids root) /\ incl (node_classes n) (node_classes root)
  /\ (node_keys_unique root = true -> node_keys_unique n = true).
Proof.
  induction p as [|s p IH]; intros root n H; cbn [node_at] in H.
  - inversion H; subst. split; [apply incl_refl|]. split; [apply incl_refl|auto].
  - destruct (node_child s root) as [m|] eqn:E; [|discriminate].
    destruct (IH m n H) as [A [B C]]. destruct (node_child_incl _ _ _ E) as [A' B'].
    split; [eapply incl_tran; eauto|]. split; [eapply incl_tran; eauto|].
    intros U. apply C. eapply node_child_nku; eauto.
Qed.

Lemma node_at_in_backend T b p root n :
  node_at p root = Some n -> node_in_backend T b root -> node_in_backend T b n.
Proof.
  intros H Hb c Hc. apply Hb. destruct (node_at_sub _ _ _ H) as [_ [B _]]. apply B. exact Hc.
Qed.

Lemma node_at_val_at p : forall root n,
  node_at p root = Some n -> val_at p (to_base root) = Some (to_base n).
Proof.
  induction p as [|s p IH]; intros root n H; cbn [node_at val_at] in *.
  - inversion H; reflexivity.
  - destruct (node_child s root) as [m|] eqn:E; [|discriminate].
    assert (E' : val_child s (to_base root) = Some (to_base m)).
    { destruct s as [k|i], root as [v|id c l|id c d]; cbn in *; try discriminate.
      - rewrite (alookup_map to_base), E. reflexivity.
      - apply map_nth_error. exact E. }
    rewrite E'. apply IH; exact H.
Qed.

(* ---------- replacing the content at a path in plain data ---------- *)
Fixpoint put_at (p : path) (v c' : val) : val :=
  match p with
  | [] => c'
  | PKey k :: p' =>
      match v with
      | VD d => match alookup k d with
                | Some c => VD (dict_set d k (put_at p' c c'))
                | None => v
                end
      | _ => v
      end
  | PIdx i :: p' =>
      match v with
      | VL l => match nth_error l i with
                | Some c => VL (set_nth l i (put_at p' c c'))
                | None => v
                end
      | _ => v
      end
  end.

Lemma plain_at_put p o : forall v w r c',
  val_at p v = Some w -> plain_nop w o = Some (r, c') ->
  plain_at p o v = Some (r, put_at p v c').
Proof.
  induction p as [|[k|i] p IH]; intros v w r c' Hv Hp; cbn [val_at plain_at put_at] in *.
  - inversion Hv; subst. exact Hp.
  - destruct v as [s|l|d]; cbn [val_child] in Hv; try discriminate.
    destruct (alookup k d) as [x|] eqn:E; [|discriminate].
    rewrite (IH x w r c' Hv Hp). reflexivity.
  - destruct v as [s|l|d]; cbn [val_child] in Hv; try discriminate.
    destruct (nth_error l i) as [x|] eqn:E; [|discriminate].
    rewrite (IH x w r c' Hv Hp). reflexivity.
Qed.

Lemma alookup_dict_set {A} (d : list (key * A)) k k0 n :
  alookup k0 (dict_set d k n) = if key_eqb k0 k then Some n else alookup k0 d.
Proof.
  destruct (key_eqb k0 k) eqn:E.
  - apply key_eqb_eq in E. subst. apply alookup_dict_set_same.
  - apply alookup_dict_set_other. apply key_eqb_neq. exact E.
Qed.

Lemma Forall2_VEq_refl l : Forall2 VEq l l.
Proof. induction l; constructor; auto using VEq_refl. Qed.

Lemma VEq_dict_set d k x y : VEq x y -> VEq (VD (dict_set d k x)) (VD (dict_set d k y)).
Proof.
  intros H. constructor.
  - intros k0 z Hz. rewrite alookup_dict_set in *. destruct (key_eqb k0 k).
    + inversion Hz; subst. eauto.
    + exists z. split; [exact Hz|apply VEq_refl].
  - intros k0 Hz. rewrite alookup_dict_set in *. destruct (key_eqb k0 k); [discriminate|exact Hz].
Qed.

Lemma VEq_set_nth l i x y : VEq x y -> VEq (VL (set_nth l i x)) (VL (set_nth l i y)).
Proof.
  intros H. constructor. revert i. induction l as [|a l IH]; intros i; cbn [set_nth].
  - constructor.
  - destruct i; constructor; auto using VEq_refl, Forall2_VEq_refl.
Qed.

Lemma VEq_put p : forall v a b, VEq a b -> VEq (put_at p v a) (put_at p v b).
Proof.
  induction p as [|[k|i] p IH]; intros v a b H; cbn [put_at].
  - exact H.
  - destruct v as [s|l|d]; try apply VEq_refl.
    destruct (alookup k d); [|apply VEq_refl]. apply VEq_dict_set. apply IH; exact H.
  - destruct v as [s|l|d]; try apply VEq_refl.
    destruct (nth_error l i); [|apply VEq_refl]. apply VEq_set_nth. apply IH; exact H.
Qed.

(* ---------- replace_node = put_at on the plain view ---------- *)
Lemma replace_notin h r n : ~ In h (node_ids n) -> replace_node h r n = n.
Proof.
  induction n as [v|id c l IH|id c d IH] using node_ind2; intros Hn.
  - reflexivity.
  - rewrite replace_node_NL. cbn [node_ids] in Hn. destruct (Nat.eqb id h) eqn:E.
    { apply Nat.eqb_eq in E. exfalso. apply Hn. left. exact E. }
    f_equal. rewrite <- (map_id l) at 2. apply map_ext_in. intros x Hx.
    rewrite Forall_forall in IH. apply IH; auto.
    intros Hin. apply Hn. right. apply in_flat_map. eauto.
  - rewrite replace_node_ND. cbn [node_ids] in Hn. destruct (Nat.eqb id h) eqn:E.
    { apply Nat.eqb_eq in E. exfalso. apply Hn. left. exact E. }
    f_equal. rewrite <- (map_id d) at 2. apply map_ext_in. intros [k x] Hx. cbn [fst snd].
    rewrite Forall_forall in IH. pose proof (IH (k, x) Hx) as Hk. cbn [snd] in Hk.
    rewrite Hk; auto.
    intros Hin. apply Hn. right. apply in_flat_map. exists (k, x). auto.
Qed.

Lemma map_replace_list h r : forall l i m,
  nth_error l i = Some m -> NoDup (flat_map node_ids l) -> In h (node_ids m) ->
  map (fun x => to_base (replace_node h r x)) l
  = set_nth (map to_base l) i (to_base (replace_node h r m)).
Proof.
  induction l as [|a l IH]; intros i m Hn Hd Hin.
  - destruct i; discriminate.
  - cbn [flat_map] in Hd. apply NoDup_app_inv in Hd. destruct Hd as [D1 [D2 D3]].
    destruct i as [|i]; cbn [nth_error] in Hn; cbn [map set_nth].
    + inversion Hn; subst a. f_equal.
      apply map_ext_in. intros x Hx. rewrite replace_notin; [reflexivity|].
      intros Hc. apply (D3 h Hin). apply in_flat_map. eauto.
    + f_equal.
      * rewrite replace_notin; [reflexivity|]. intros Hc. apply (D3 h Hc).
        apply in_flat_map. exists m. split; [eapply nth_error_In; eauto|exact Hin].
      * apply IH; auto.
Qed.

Lemma map_replace_dict h r : forall (d : list (key * node)) k m,
  alookup k d = Some m ->
  NoDup (flat_map (fun kn : key * node => node_ids (snd kn)) d) -> In h (node_ids m) ->
  map (fun kn : key * node => (fst kn, to_base (replace_node h r (snd kn)))) d
  = dict_set (map (fun kn : key * node => (fst kn, to_base (snd kn))) d) k (to_base (replace_node h r m)).
Proof.
  induction d as [|[k' m'] d IH]; intros k m Hl Hd Hin; [discriminate|].
  cbn [flat_map snd] in Hd. apply NoDup_app_inv in Hd. destruct Hd as [D1 [D2 D3]].
  cbn [alookup] in Hl. cbn [map dict_set fst snd]. destruct (key_eqb k k') eqn:E.
  - inversion Hl; subst m'. f_equal.
    apply map_ext_in. intros [k2 m2] Hx. cbn [fst snd]. rewrite replace_notin; [reflexivity|].
    intros Hc. apply (D3 h Hin). apply in_flat_map. exists (k2, m2). auto.
  - f_equal.
    + rewrite replace_notin; [reflexivity|]. intros Hc. apply (D3 h Hc).
      apply in_flat_map. exists (k, m). split; [apply alookup_In; exact Hl|exact Hin].
    + apply IH; auto.
Qed.

Lemma node_id_In n h : node_id n = Some h -> In h (node_ids n).
Proof. destruct n; cbn; intros H; try discriminate; inversion H; auto. Qed.

Lemma replace_node_put h r p : forall root n,
  node_at p root = Some n -> node_id n = Some h -> NoDup (node_ids root) ->
  to_base (replace_node h r root) = put_at p (to_base root) (to_base r).
Proof.
  induction p as [|s p IH]; intros root n Hat Hid Hd.
  - cbn in Hat. inversion Hat; subst n.
    destruct root as [v|id c l|id c d]; cbn in Hid; try discriminate; inversion Hid; subst;
      cbn [replace_node]; rewrite Nat.eqb_refl; reflexivity.
  - cbn [node_at] in Hat. destruct (node_child s root) as [m|] eqn:Ec; [|discriminate].
    assert (Hin : In h (node_ids m)).
    { destruct (node_at_sub _ _ _ Hat) as [I _]. apply I. apply node_id_In; exact Hid. }
    pose proof (node_child_nodup _ _ _ Ec Hd) as Hdm.
    pose proof (IH m n Hat Hid Hdm) as IHm.
    destruct s as [k|i], root as [v|id c l|id c d]; cbn [node_child] in Ec; try discriminate.
    + cbn [node_ids] in Hd. inversion Hd as [|? ? Hn Hd']; subst.
      assert (Hne : Nat.eqb id h = false).
      { apply Nat.eqb_neq. intros ->. apply Hn. apply in_flat_map. exists (k, m).
        split; [apply alookup_In; exact Ec|exact Hin]. }
      rewrite replace_node_ND, Hne. cbn [to_base put_at]. rewrite map_map. cbn [fst snd].
      rewrite (alookup_map to_base), Ec. cbn [option_map].
      rewrite (map_replace_dict h r d k m Ec Hd' Hin). rewrite IHm. reflexivity.
    + cbn [node_ids] in Hd. inversion Hd as [|? ? Hn Hd']; subst.
      assert (Hne : Nat.eqb id h = false).
      { apply Nat.eqb_neq. intros ->. apply Hn. apply in_flat_map. exists m.
        split; [eapply nth_error_In; eauto|exact Hin]. }
      rewrite replace_node_NL, Hne. cbn [to_base put_at]. rewrite map_map.
      rewrite (map_nth_error to_base _ _ Ec).
      rewrite (map_replace_list h r l i m Ec Hd' Hin). rewrite IHm. reflexivity.
Qed.

Lemma replace_same h : forall root n,
  NoDup (node_ids root) -> find_node h root = Some n -> replace_node h n root = root.
Proof.
  induction root as [v|id c l IH|id c d IH] using node_ind2; intros n Hd H.
  - discriminate.
  - rewrite find_node_NL in H. rewrite replace_node_NL. destruct (Nat.eqb id h) eqn:E.
    + inversion H; reflexivity.
    + apply find_in_list_Some in H. destruct H as [x [Hx Hf]].
      cbn [node_ids] in Hd. inversion Hd as [|? ? _ Hd']; subst.
      f_equal. rewrite <- (map_id l) at 2. apply map_ext_in. intros y Hy.
      destruct (in_dec Nat.eq_dec h (node_ids y)) as [Hin|Hnin].
      * assert (x = y).
        { eapply (NoDup_flat_map_same node_ids l x y h); eauto.
          apply (find_node_In _ _ _ Hf). }
        subst y. rewrite Forall_forall in IH. apply IH; auto.
        eapply NoDup_flat_map_In; eauto.
      * apply replace_notin; exact Hnin.
  - rewrite find_node_ND in H. rewrite replace_node_ND. destruct (Nat.eqb id h) eqn:E.
    + inversion H; reflexivity.
    + apply find_in_list_Some in H. destruct H as [x [Hx Hf]].
      cbn [node_ids] in Hd. inversion Hd as [|? ? _ Hd']; subst.
      f_equal. rewrite <- (map_id d) at 2. apply map_ext_in. intros y Hy.
      destruct (in_dec Nat.eq_dec h (node_ids (snd y))) as [Hin|Hnin].
      * assert (x = y).
        { eapply (NoDup_flat_map_same (fun kn : key * node => node_ids (snd kn)) d x y h); eauto.
          apply (find_node_In _ _ _ Hf). }
        subst y. rewrite Forall_forall in IH. rewrite (IH x Hx n); auto.
        { destruct x; reflexivity. }
        apply (NoDup_flat_map_In (fun kn : key * node => node_ids (snd kn)) d x Hd' Hx).
      * rewrite replace_notin by exact Hnin. destruct y; reflexivity.
Qed.

(* ====================================================================== *)
(* PART D *)
(* ====================================================================== *)
(* PART C — arguments: iter_val / as_mapping on valid data; update() as a merge *)

(* ---------- dict_update ---------- *)
Fixpoint lastv {A} (k : key) (o : list (key * A)) : option A :=
  match o with
  | [] => None
  | (k', v) :: o' => match lastv k o' with
                     | Some y => Some y
                     | None => if key_eqb k k' then Some v else None
                     end
  end.

Lemma dict_update_cons {A} (D : list (key * A)) k v o :
  dict_update D ((k, v) :: o) = dict_update (dict_set D k v) o.
Proof. reflexivity. Qed.

Lemma alookup_dict_update_last {A} k (o : list (key * A)) : forall D,
  alookup k (dict_update D o) = match lastv k o with Some y => Some y | None => alookup k D end.
Proof.
  induction o as [|[k' v] o IH]; intros D; cbn [lastv].
  - reflexivity.
  - rewrite dict_update_cons, IH. destruct (lastv k o); [reflexivity|].
    rewrite alookup_dict_set. destruct (key_eqb k k'); reflexivity.
Qed.

Lemma alookup_dict_update {A} k (D o : list (key * A)) :
  alookup k (dict_update D o)
  = match alookup k (dict_update [] o) with Some y => Some y | None => alookup k D end.
Proof.
  rewrite !alookup_dict_update_last. destruct (lastv k o); reflexivity.
Qed.

Lemma keys_unique_dict_update {A} (o : list (key * A)) : forall D,
  keys_unique D = true -> keys_unique (dict_update D o) = true.
Proof.
  induction o as [|[k v] o IH]; intros D H; [exact H|].
  rewrite dict_update_cons. apply IH. apply keys_unique_dict_set. exact H.
Qed.

Lemma Forall_dict_update {A} (Q : key * A -> Prop) (o : list (key * A)) : forall D,
  Forall Q D -> Forall Q o -> Forall Q (dict_update D o).
Proof.
  induction o as [|[k v] o IH]; intros D HD Ho; [exact HD|].
  rewrite dict_update_cons. inversion Ho; subst. apply IH; auto. apply Forall_dict_set; auto.
Qed.

Lemma alookup_app {A} k (a b : list (key * A)) :
  alookup k (a ++ b) = match alookup k a with Some x => Some x | None => alookup k b end.
Proof.
  induction a as [|[k' v] a IH]; cbn [app alookup]; [reflexivity|].
  destruct (key_eqb k k'); [reflexivity|exact IH].
Qed.

Lemma keys_unique_app {A} (a b : list (key * A)) :
  keys_unique a = true -> keys_unique b = true ->
  (forall k x, alookup k a = Some x -> alookup k b = None) ->
  keys_unique (a ++ b) = true.
Proof.
  induction a as [|[k v] a IH]; cbn [app keys_unique]; intros Ha Hb Hd; [exact Hb|].
  destruct (alookup k a) eqn:E; [discriminate|].
  rewrite alookup_app, E. rewrite (Hd k v).
  - apply IH; auto. intros k0 x Hx. apply (Hd k0 x). cbn [alookup].
    destruct (key_eqb k0 k) eqn:E0; [|exact Hx].
    apply key_eqb_eq in E0. subst. congruence.
  - cbn [alookup]. rewrite key_eqb_refl. reflexivity.
Qed.

(* ---------- update_entries ---------- *)
Definition sel_entries {A} (od : list (key * val)) (d : list (key * A)) : list (key * val) :=
  flat_map (fun kn : key * A => match alookup (fst kn) od with
                                | Some v => [(fst kn, v)] | None => [] end) d.

Lemma alookup_sel_entries {A} (od : list (key * val)) (d : list (key * A)) k :
  alookup k (sel_entries od d) = match alookup k d with Some _ => alookup k od | None => None end.
Proof.
  unfold sel_entries. induction d as [|[k' x] d IH]; cbn [flat_map alookup fst].
  - reflexivity.
  - destruct (key_eqb k k') eqn:E.
    + apply key_eqb_eq in E. subst k'. destruct (alookup k od) eqn:E2; cbn [app alookup].
      * rewrite key_eqb_refl. reflexivity.
      * rewrite IH. destruct (alookup k d); auto.
    + destruct (alookup k' od); cbn [app alookup]; rewrite ?E; exact IH.
Qed.

Lemma keys_unique_sel_entries {A} (od : list (key * val)) (d : list (key * A)) :
  keys_unique d = true -> keys_unique (sel_entries od d) = true.
Proof.
  induction d as [|[k' x] d IH]; intros Hu; [reflexivity|].
  cbn [keys_unique] in Hu. destruct (alookup k' d) eqn:E; [discriminate|].
  change (sel_entries od ((k', x) :: d))
    with ((match alookup k' od with Some v => [(k', v)] | None => [] end) ++ sel_entries od d).
  destruct (alookup k' od); cbn [app keys_unique]; [|auto].
  rewrite alookup_sel_entries, E. auto.
Qed.

Lemma update_entries_eq d o :
  update_entries d o = sel_entries (dict_update [] o) d
                       ++ filter (fun kv : key * val => negb (dict_has d (fst kv))) (dict_update [] o).
Proof. reflexivity. Qed.

Lemma alookup_update_entries d o k :
  alookup k (update_entries d o) = alookup k (dict_update [] o).
Proof.
  rewrite update_entries_eq, alookup_app, alookup_sel_entries.
  rewrite (alookup_filter_key (fun k => negb (dict_has d k))). unfold dict_has.
  destruct (alookup k d); cbn [negb].
  - destruct (alookup k (dict_update [] o)); reflexivity.
  - reflexivity.
Qed.

Lemma keys_unique_update_entries d o :
  keys_unique d = true -> keys_unique (update_entries d o) = true.
Proof.
  intros Hd. rewrite update_entries_eq. apply keys_unique_app.
  - apply keys_unique_sel_entries; exact Hd.
  - apply (keys_unique_filter_key (fun k => negb (dict_has d k))).
    apply keys_unique_dict_update. reflexivity.
  - intros k x Hx. rewrite alookup_sel_entries in Hx.
    rewrite (alookup_filter_key (fun k => negb (dict_has d k))). unfold dict_has.
    destruct (alookup k d); [reflexivity|discriminate].
Qed.

Lemma Forall_update_entries (Q : key * val -> Prop) d o :
  Forall Q o -> Forall Q (update_entries d o).
Proof.
  intros Ho. assert (Hod : Forall Q (dict_update [] o)) by (apply Forall_dict_update; auto).
  rewrite update_entries_eq. apply Forall_app. split.
  - unfold sel_entries. apply Forall_forall. intros [k v] Hin. apply in_flat_map in Hin.
    destruct Hin as [[k' x] [_ Hin]]. cbn [fst] in Hin.
    destruct (alookup k' (dict_update [] o)) eqn:E; [|contradiction].
    destruct Hin as [Hin|[]]. inversion Hin; subst.
    apply alookup_In in E. rewrite Forall_forall in Hod. apply Hod; exact E.
  - apply Forall_filter'. exact Hod.
Qed.

(* ---------- update() on a dict node is a merge ---------- *)
Definition tbd (d : list (key * node)) : list (key * val) :=
  map (fun kn : key * node => (fst kn, to_base (snd kn))) d.

Lemma dupdate_ok T b L c d od nx :
  backend_has_both T b = true -> uniform_backend T b L = true ->
  in_backend T b c = true -> val_ok L (VD od) = true ->
  Forall (fun kv : key * val => wf_val (snd kv) = true) od ->
  Forall (nib_entry T b) d -> Forall nku_entry d -> keys_unique d = true ->
  exists d' nx',
    upd_entries T (fun w => upd T w) c (update_entries d od) d nx = (d', nx', None)
    /\ VEq (VD (tbd d')) (VD (dict_update (tbd d) od)).
Proof.
  intros HB HU Hc Hok Hwf Hnib Hnku Hdu.
  apply val_ok_VD in Hok.
  set (dd := update_entries d od).
  assert (Hok' : Forall (fun kv : key * val => key_ok L (fst kv) = true /\ val_ok L (snd kv) = true) dd)
    by (apply Forall_update_entries; exact Hok).
  assert (Hwf' : Forall (fun kv : key * val => wf_val (snd kv) = true) dd)
    by (apply Forall_update_entries; exact Hwf).
  assert (HF : Forall (fun kv : key * val => upd_good T b ((fun w => upd T w) (snd kv)) (snd kv)) dd).
  { rewrite Forall_forall in *. intros x Hx. apply (upd_full T b L HB HU).
    - apply (Hok' x Hx).
    - apply (Hwf' x Hx). }
  destruct (upd_entries_ok T b L HB HU (fun w => upd T w) c dd
              (fun nv n nx => upd_mismatch T nv n nx) HF Hc Hok' Hwf'
              (keys_unique_update_entries d od Hdu) d nx Hnib Hnku Hdu)
    as [d' [nx' [E [B1 [B2 _]]]]].
  exists d', nx'. split; [exact E|].
  assert (Hl : forall k, alookup k dd = alookup k (dict_update [] od))
    by (intros k; apply alookup_update_entries).
  unfold tbd. constructor.
  - intros k x Hx. rewrite (alookup_map to_base) in Hx. rewrite alookup_dict_update, <- Hl.
    destruct (alookup k dd) as [y|] eqn:Ey.
    + destruct (B1 k y Ey) as [n [C1 [C2 _]]]. rewrite C1 in Hx. cbn in Hx.
      inversion Hx; subst. exists y. auto.
    + rewrite (B2 k Ey) in Hx. rewrite (alookup_map to_base). exists x. split; [exact Hx|apply VEq_refl].
  - intros k Hx. rewrite (alookup_map to_base) in Hx. rewrite alookup_dict_update, <- Hl.
    destruct (alookup k dd) as [y|] eqn:Ey.
    + destruct (B1 k y Ey) as [n [C1 _]]. rewrite C1 in Hx. discriminate.
    + rewrite (B2 k Ey) in Hx. rewrite (alookup_map to_base). exact Hx.
Qed.

(* ---------- as_mapping ---------- *)
Lemma pairs_to_dict_wf l : forall dd,
  pairs_to_dict l = Some dd -> forallb wf_val l = true ->
  Forall (fun kv : key * val => wf_val (snd kv) = true) dd.
Proof.
  induction l as [|x l IH]; intros dd H Hwf; cbn [pairs_to_dict] in H.
  - inversion H; constructor.
  - cbn [forallb] in Hwf. apply andb_true_iff in Hwf. destruct Hwf as [Hx Hl].
    destruct x as [s|[|[[| | |f|s|t]|?|?] [|v [|? ?]]]|?]; try discriminate.
    destruct (pairs_to_dict l) as [d0|]; [|discriminate]. inversion H; subst.
    constructor; [|apply IH; auto].
    cbn [snd]. cbn in Hx. rewrite andb_true_r in Hx. exact Hx.
Qed.

Lemma as_mapping_wf v od :
  as_mapping v = Ok od -> wf_val v = true ->
  Forall (fun kv : key * val => wf_val (snd kv) = true) od.
Proof.
  destruct v as [s|l|d]; cbn [as_mapping]; intros H Hwf; try discriminate.
  - destruct (pairs_to_dict l) as [dd|] eqn:E; [|discriminate]. inversion H; subst.
    apply Forall_dict_update; [constructor|]. apply (pairs_to_dict_wf l); auto.
  - inversion H; subst. cbn in Hwf. apply andb_true_iff in Hwf. destruct Hwf as [_ Hwf].
    apply forallb_Forall' in Hwf. exact Hwf.
Qed.

(* ---------- iter_val ---------- *)
Lemma lang3_json_str vs : l_json_leaves (lang3 vs) = true -> l_str_keys (lang3 vs) = true.
Proof.
  induction vs as [|n vs IH]; cbn; intros H; [discriminate|].
  destruct n; reflexivity.
Qed.

Lemma val_all_keys_list pl pk (d : list (key * val)) :
  (forall k, pl (match k with KStr s => SStr s | KBad t => SBad t end) = true) ->
  val_all pl pk (VL (map (fun kv : key * val => vkey (fst kv)) d)) = true.
Proof.
  intros H. cbn [val_all]. apply forallb_forall. intros x Hx. apply in_map_iff in Hx.
  destruct Hx as [[k w] [<- _]]. cbn [fst]. specialize (H k). destruct k; exact H.
Qed.

Lemma iter_val_ok vs v l :
  val_ok (lang3 vs) v = true -> iter_val v = Ok l -> val_ok (lang3 vs) (VL l) = true.
Proof.
  intros Hok Hi. destruct v as [s|l0|d]; cbn [iter_val] in Hi.
  - destruct s; try discriminate. inversion Hi; subst.
    apply val_ok_VL. apply Forall_forall. intros x Hx. apply in_map_iff in Hx.
    destruct Hx as [c [<- _]]. unfold val_ok. cbn. rewrite !orb_true_r. reflexivity.
  - inversion Hi; subst. exact Hok.
  - inversion Hi; subst. pose proof (lang3_json_str vs) as HJ.
    unfold val_ok in *. apply andb_true_iff in Hok. destruct Hok as [Hok H3].
    apply andb_true_iff in Hok. destruct Hok as [H1 H2].
    apply andb_true_iff. split; [apply andb_true_iff; split|].
    + apply orb_true_iff. right. apply val_all_keys_list. reflexivity.
    + destruct (l_json_leaves (lang3 vs)); [|reflexivity]. cbn [negb orb].
      rewrite (HJ eq_refl) in H1. cbn [negb orb] in H1.
      unfold json_leaves. cbn [val_all]. apply forallb_forall. intros x Hx. apply in_map_iff in Hx.
      destruct Hx as [[k w] [<- Hin]]. cbn [fst].
      rewrite str_keys_VD in H1. rewrite forallb_forall in H1. specialize (H1 (k, w) Hin).
      cbn [fst] in H1. apply andb_true_iff in H1. destruct H1 as [H1 _].
      destruct k; [reflexivity|discriminate].
    + apply orb_true_iff. right. apply val_all_keys_list. reflexivity.
Qed.

(* ====================================================================== *)
(* PART E *)
(* ====================================================================== *)
(* PART D — the machine theorems *)

(* ---------- facts from the class table and the invariant ---------- *)
Lemma table_cls_ok T c :
  table_ok T = true -> c < length T ->
  backend_has_both T (backend_of T c) = true
  /\ uniform_backend T (backend_of T c) (lang_of T c) = true
  /\ in_backend T (backend_of T c) c = true.
Proof.
  intros HT Hc. unfold table_ok in HT. rewrite forallb_forall in HT.
  assert (Hin : In (get_cls T c) T) by (apply nth_In; exact Hc).
  specialize (HT _ Hin). unfold cls_ok in HT. apply andb_true_iff in HT. destruct HT as [HT _].
  apply andb_true_iff in HT. destruct HT as [H1 H2].
  split; [exact H1|]. split; [exact H2|]. apply in_backend_spec. split; [exact Hc|reflexivity].
Qed.

Lemma load_ok T s oid ob c :
  table_ok T = true -> Inv T s -> res_valid T s ->
  nlookup oid (m_objs s) = Some ob -> nlookup (o_rid ob) (m_res s) = Some c ->
  exists root1 nx1,
    load_root T s ob = (root1, nx1, None)
    /\ VEq (to_base root1) c
    /\ node_in_backend T (backend_of T (o_cls ob)) root1
    /\ node_keys_unique root1 = true
    /\ node_id root1 = node_id (o_root ob)
    /\ NoDup (node_ids root1)
    /\ (forall p m, node_at p (o_root ob) = Some m -> same_kinds_along p (o_root ob) c ->
          exists m', node_at p root1 = Some m' /\ node_id m' = node_id m).
Proof.
  intros HT HI HR Hob Hc.
  pose proof (HI oid ob Hob) as I. destruct (HR oid ob c Hob Hc) as [Vok [Vwf Vk]].
  destruct (table_cls_ok T (o_cls ob) HT (oi_cls _ _ _ I)) as [HB [HU Hinb]].
  unfold load_root. rewrite Hc.
  destruct (upd_correct T _ _ c (o_root ob) (m_next s) HB HU (oi_backend _ _ _ I)
              (oi_container _ _ _ I) (eq_sym Vk) Vok Vwf (oi_keys _ _ _ I))
    as [root1 [nx1 [E [A1 [A2 [A3 [A4 [A5 A6]]]]]]]].
  exists root1, nx1. split; [exact E|]. split; [exact A1|]. split; [exact A2|].
  split; [exact A3|]. split; [exact A4|]. split.
  - destruct (upd_ids_r T c (o_root ob) (m_next s) root1 nx1 None E
                (oi_below _ _ _ I) (oi_nodup _ _ _ I)) as [N _]. exact N.
  - eapply upd_keeps_handles; eauto. exact (oi_backend _ _ _ I). exact (oi_keys _ _ _ I).
Qed.

(* ---------- the argument checks done before anything else ---------- *)
Definition reset_kind_ok (o : nop) : Prop :=
  match o with
  | OL (LReset v) => kind_of v = KList
  | OD (DReset v) => kind_of v = KDict
  | _ => True
  end.

Lemma pre_nop_pass T n o : pre_nop T n o = Some None -> reset_kind_ok o.
Proof.
  destruct n as [v0|id c l|id c d], o as [lo|dop]; cbn [pre_nop]; intros H; try discriminate.
  - destruct lo; cbn [reset_kind_ok]; auto. cbn [pre_lop] in H. destruct v; try discriminate. reflexivity.
  - destruct dop; cbn [reset_kind_ok]; auto. cbn [pre_dop] in H. destruct v; try discriminate. reflexivity.
Qed.

Lemma args1 L v : (val_ok L v && wf_val v) && true = true -> val_ok L v = true /\ wf_val v = true.
Proof. rewrite andb_true_r. apply andb_true_iff. Qed.

Lemma validate_args T c L v :
  lang3 (validators_of T c) = L -> val_ok L v = true -> validate (validators_of T c) v = None.
Proof. intros HL H. apply validate_spec. rewrite HL. exact H. Qed.

Lemma pre_nop_reject T c0 n o e L :
  node_cls n = Some c0 -> lang3 (validators_of T c0) = L ->
  args_ok L o = true -> pre_nop T n o = Some (Some e) ->
  forall v r' new, plain_nop v o = Some (r', new) -> r' = Err e /\ new = v.
Proof.
  intros Hc HL Ha Hp v r' new Hv.
  destruct n as [v0|id c l|id c d]; cbn in Hc; try discriminate; inversion Hc; subst c;
    destruct o as [lo|dop]; cbn [pre_nop] in Hp; try discriminate; inversion Hp as [Hp']; clear Hp;
    destruct v as [sv|lv|dv]; cbn [plain_nop] in Hv; try discriminate.
  - (* lists *)
    unfold args_ok in Ha. cbn [nop_vals] in Ha.
    destruct lo; cbn [pre_lop] in Hp'; try discriminate; cbn [lop_vals forallb] in Ha;
      apply args1 in Ha; destruct Ha as [Vok Vwf];
      try (rewrite (validate_args T c0 L _ HL Vok) in Hp'; discriminate).
    + (* LExtend *)
      destruct (iter_val v) as [vs|e0] eqn:Ei.
      * rewrite (validate_args T c0 L (VL vs) HL) in Hp'; [discriminate|].
        rewrite <- HL in *. eapply iter_val_ok; eauto.
      * inversion Hp'; subst e0. cbn [plain_lop] in Hv. rewrite Ei in Hv. cbn [bind] in Hv.
        inversion Hv; auto.
    + (* LIAdd *)
      destruct (iter_val v) as [vs|e0] eqn:Ei.
      * rewrite (validate_args T c0 L (VL vs) HL) in Hp'; [discriminate|].
        rewrite <- HL in *. eapply iter_val_ok; eauto.
      * inversion Hp'; subst e0. cbn [plain_lop] in Hv. rewrite Ei in Hv. cbn [bind] in Hv.
        inversion Hv; auto.
    + (* LReset *)
      destruct v; try discriminate; inversion Hp'; subst e; cbn [plain_lop] in Hv; inversion Hv; auto.
  - (* dicts *)
    unfold args_ok in Ha. cbn [nop_vals] in Ha.
    destruct dop; cbn [pre_dop] in Hp'; try discriminate; cbn [dop_vals forallb] in Ha;
      apply args1 in Ha; destruct Ha as [Vok Vwf];
      try (rewrite (validate_args T c0 L _ HL Vok) in Hp'; discriminate).
    + (* DUpdate *)
      destruct (as_mapping v) as [od|e0] eqn:Em; [discriminate|]. inversion Hp'; subst e0.
      cbn [plain_dop] in Hv. rewrite Em in Hv. inversion Hv; auto.
    + (* DReset *)
      destruct v; try discriminate; inversion Hp'; subst e; cbn [plain_dop] in Hv; inversion Hv; auto.
Qed.

(* ---------- the body of an operation on a node of a clean tree ---------- *)
Definition update_arg_ok (L : lang) (o : nop) : Prop :=
  forall v od, o = OD (DUpdate v) -> as_mapping v = Ok od -> val_ok L (VD od) = true.

Lemma in_nop_refines T b L n1 o nx r h n2 nx2 :
  backend_has_both T b = true -> uniform_backend T b L = true ->
  node_in_backend T b n1 -> node_keys_unique n1 = true ->
  args_ok L o = true -> reset_kind_ok o -> update_arg_ok L o ->
  in_nop T n1 o nx = Some ((r, h), n2, nx2) ->
  exists c', plain_nop (to_base n1) o = Some (r, c') /\ VEq (to_base n2) c'
             /\ (nop_merges o = false -> to_base n2 = c').
Proof.
  intros HB HU Hn Hku Ha Hrk Hup H.
  destruct n1 as [v0|id c l|id c d], o as [lo|dop]; cbn [in_nop] in H; try discriminate;
    inversion H as [H1]; clear H.
  - (* list node *)
    assert (Hcase : (exists v, lo = LReset v) \/ match lo with LReset _ => False | _ => True end)
      by (destruct lo; eauto).
    destruct Hcase as [[v ->]|Hcase].
    + cbn [reset_kind_ok] in Hrk. unfold args_ok in Ha. cbn [nop_vals lop_vals forallb] in Ha.
      apply args1 in Ha. destruct Ha as [Vok Vwf].
      destruct (upd_correct T b L v (NL id c l) nx HB HU Hn eq_refl (eq_sym Hrk) Vok Vwf Hku)
        as [n' [nx' [E [A1 _]]]].
      cbn [in_lop] in H1. rewrite E in H1. inversion H1; subst.
      destruct v as [sv|lv|dv]; try discriminate.
      exists (VL lv). cbn [to_base plain_nop plain_lop]. split; [reflexivity|].
      split; [exact A1|]. intros Hm; discriminate.
    + pose proof (in_lop_refines_plain T id c l lo nx Hcase) as R. rewrite H1 in R.
      cbn [to_base plain_nop].
      destruct (plain_lop (map to_base l) lo) as [r0 l0]. cbn [fst snd] in R. destruct R as [R1 R2].
      subst r0. exists (VL l0). split; [reflexivity|]. rewrite R2. split; [apply VEq_refl|auto].
  - (* dict node *)
    apply nib_ND in Hn. destruct Hn as [Hc Hnib].
    pose proof Hku as Hku0.
    cbn [node_keys_unique] in Hku. apply andb_true_iff in Hku. destruct Hku as [Hdu Hnku].
    apply forallb_Forall' in Hnku.
    assert (Hcase : (exists v, dop = DReset v) \/ (exists v, dop = DUpdate v)
                    \/ match dop with DReset _ | DUpdate _ => False | _ => True end)
      by (destruct dop; eauto).
    destruct Hcase as [[v ->]|[[v ->]|Hcase]].
    + cbn [reset_kind_ok] in Hrk. unfold args_ok in Ha. cbn [nop_vals dop_vals forallb] in Ha.
      apply args1 in Ha. destruct Ha as [Vok Vwf].
      assert (Hn : node_in_backend T b (ND id c d)) by (apply nib_ND; auto).
      destruct (upd_correct T b L v (ND id c d) nx HB HU Hn eq_refl (eq_sym Hrk) Vok Vwf Hku0)
        as [n' [nx' [E [A1 _]]]].
      cbn [in_dop] in H1. rewrite E in H1. inversion H1; subst.
      destruct v as [sv|lv|dv]; try discriminate.
      exists (VD dv). cbn [to_base plain_nop plain_dop]. split; [reflexivity|].
      split; [exact A1|]. intros Hm; discriminate.
    + unfold args_ok in Ha. cbn [nop_vals dop_vals forallb] in Ha.
      apply args1 in Ha. destruct Ha as [Vok Vwf].
      cbn [in_dop] in H1. cbn [to_base plain_nop plain_dop].
      destruct (as_mapping v) as [od|e0] eqn:Em.
      * destruct (dupdate_ok T b L c d od nx HB HU Hc (Hup v od eq_refl Em)
                    (as_mapping_wf v od Em Vwf) Hnib Hnku Hdu) as [d' [nx' [E V]]].
        rewrite E in H1. inversion H1; subst.
        eexists. split; [reflexivity|]. split; [exact V|]. intros Hm; discriminate.
      * inversion H1; subst. eexists. split; [reflexivity|]. split; [apply VEq_refl|auto].
    + assert (Hpre : match dop with
                     | DReset _ | DUpdate _ => False
                     | DSetdefault k v => validate (validators_of T c) (VD [(k, v)]) = None
                     | _ => True end).
      { destruct dop; try exact I; try contradiction.
        unfold args_ok in Ha. cbn [nop_vals dop_vals forallb] in Ha.
        apply args1 in Ha. destruct Ha as [Vok Vwf].
        apply (validate_args T c L); [|exact Vok]. eapply uniform_lang; eauto. }
      pose proof (in_dop_refines_plain T id c d dop nx Hpre) as R. rewrite H1 in R.
      cbn [to_base plain_nop].
      destruct (plain_dop (map (fun kn : key * node => (fst kn, to_base (snd kn))) d) dop) as [r0 d0].
      cbn [fst snd] in R. destruct R as [R1 R2].
      subst r0. exists (VD d0). split; [reflexivity|]. rewrite R2. split; [apply VEq_refl|auto].
Qed.

(* ---------- the shape of [step] for MOp ---------- *)
Definition step_body (T : class_table) (s : mstate) (oid hid : nat) (o : nop) (ob : obj)
    (skip : bool) (root1 : node) (nx1 : nat) : mstate * mresult :=
  match find_node hid root1 with
  | None =>
      if nop_is_read o then (keep_root s oid ob root1 nx1, MDetached)
      else (save_root s oid ob root1 nx1, MDetached)
  | Some n1 =>
      match in_nop T n1 o nx1 with
      | None => (s, MBad)
      | Some ((r, h), n2, nx2) =>
          let root2 := replace_node hid n2 root1 in
          if nop_is_read o then (keep_root s oid ob root2 nx2, MR r h)
          else (save_root s oid ob root2 nx2, MR r h)
      end
  end.

Lemma step_MOp_eq T s oid hid o ob n0 :
  nlookup oid (m_objs s) = Some ob -> find_node hid (o_root ob) = Some n0 ->
  pre_nop T n0 o = Some None ->
  step T s (MOp oid hid o) =
    match (if is_root_handle ob hid && nop_no_load o
           then (o_root ob, m_next s, None) else load_root T s ob) with
    | (root1, nx1, Some e) => (keep_root s oid ob root1 nx1, MR (Err e) None)
    | (root1, nx1, None) =>
        step_body T s oid hid o ob (is_root_handle ob hid && nop_no_load o) root1 nx1
    end.
Proof. intros H1 H2 H3. cbn [step]. rewrite H1, H2, H3. reflexivity. Qed.

Lemma step_MOp_early T s oid hid o s' res :
  step T s (MOp oid hid o) = (s', res) ->
  (s' = s /\ (res = MBad \/
              exists ob n0 e, nlookup oid (m_objs s) = Some ob /\ find_node hid (o_root ob) = Some n0
                              /\ pre_nop T n0 o = Some (Some e) /\ res = MR (Err e) None))
  \/ (exists ob n0, nlookup oid (m_objs s) = Some ob /\ find_node hid (o_root ob) = Some n0
                    /\ pre_nop T n0 o = Some None).
Proof.
  intros H. cbn [step] in H.
  destruct (nlookup oid (m_objs s)) as [ob|] eqn:Hob; [|inversion H; auto].
  destruct (find_node hid (o_root ob)) as [n0|] eqn:Hf; [|inversion H; auto].
  destruct (pre_nop T n0 o) as [[e|]|] eqn:Hp.
  - inversion H; subst. left. split; [reflexivity|]. right. exists ob, n0, e. auto.
  - right. exists ob, n0. auto.
  - inversion H; auto.
Qed.

Lemma find_node_root h n : node_id n = Some h -> find_node h n = Some n.
Proof.
  destruct n as [v|id c l|id c d]; cbn [node_id]; intros H; try discriminate; inversion H; subst.
  - rewrite find_node_NL, Nat.eqb_refl. reflexivity.
  - rewrite find_node_ND, Nat.eqb_refl. reflexivity.
Qed.

Lemma replace_root h r n : node_id n = Some h -> replace_node h r n = r.
Proof.
  destruct n as [v|id c l|id c d]; cbn [node_id]; intros H; try discriminate; inversion H; subst.
  - rewrite replace_node_NL, Nat.eqb_refl. reflexivity.
  - rewrite replace_node_ND, Nat.eqb_refl. reflexivity.
Qed.

Lemma is_root_handle_id ob hid : is_root_handle ob hid = true -> node_id (o_root ob) = Some hid.
Proof.
  unfold is_root_handle. destruct (node_id (o_root ob)) as [r|]; [|discriminate].
  intros H. apply Nat.eqb_eq in H. subst. reflexivity.
Qed.

Lemma read_not_no_load o : nop_is_read o = true -> nop_no_load o = false.
Proof. destruct o as [[]|[]]; cbn; intros H; try discriminate; reflexivity. Qed.

Lemma no_load_not_read o : nop_no_load o = true -> nop_is_read o = false.
Proof. destruct o as [[]|[]]; cbn; intros H; try discriminate; reflexivity. Qed.

Lemma in_nop_read T n o nx r h n2 nx2 :
  nop_is_read o = true -> in_nop T n o nx = Some ((r, h), n2, nx2) -> n2 = n /\ nx2 = nx.
Proof.
  intros Hr H. destruct n as [v|id c l|id c d], o as [lo|dop]; cbn [in_nop] in H; try discriminate.
  - destruct lo; cbn [nop_is_read lop_is_read] in Hr; try discriminate; cbn [in_lop] in H;
      inversion H; auto.
  - destruct dop; cbn [nop_is_read dop_is_read] in Hr; try discriminate; cbn [in_dop] in H;
      inversion H; auto.
Qed.

Lemma pre_nop_cls T n o x : pre_nop T n o = Some x -> exists c0, node_cls n = Some c0.
Proof. destruct n as [v|id c l|id c d]; cbn; intros H; [destruct o; discriminate| |]; eauto. Qed.

Lemma node_cls_lang T b L n c0 :
  uniform_backend T b L = true -> node_in_backend T b n -> node_cls n = Some c0 ->
  lang3 (validators_of T c0) = L.
Proof.
  intros HU Hn Hc. eapply uniform_lang; [exact HU|]. apply Hn.
  destruct n as [v|id c l|id c d]; cbn in Hc; try discriminate; inversion Hc; subst; cbn; auto.
Qed.

(* ---------- M2 ---------- *)
Theorem mutator_writes_through T s oid hid o s' v h :
  nop_is_read o = false -> step T s (MOp oid hid o) = (s', MR (Ok v) h) ->
  exists ob', nlookup oid (m_objs s') = Some ob'
    /\ nlookup (o_rid ob') (m_res s') = Some (to_base (o_root ob'))
    /\ m_writes s' = o_rid ob' :: m_writes s.
Proof.
  intros Hr H.
  destruct (step_MOp_early _ _ _ _ _ _ _ H)
    as [[_ [Hbad|(ob & n0 & e & _ & _ & _ & Hres)]]|(ob & n0 & Hob & Hf & Hp)]; try discriminate.
  rewrite (step_MOp_eq _ _ _ _ _ _ _ Hob Hf Hp) in H.
  destruct (if is_root_handle ob hid && nop_no_load o
            then (o_root ob, m_next s, None) else load_root T s ob) as [[root1 nx1] [e|]];
    [discriminate|].
  unfold step_body in H. rewrite Hr in H.
  destruct (find_node hid root1) as [n1|]; [|discriminate].
  destruct (in_nop T n1 o nx1) as [[[[r1 h1] n2] nx2]|]; [|discriminate].
  assert (Hs : s' = save_root s oid ob (replace_node hid n2 root1) nx2).
  { destruct r1 as [v1|e1].
    - inversion H; reflexivity.
    - destruct (is_root_handle ob hid && nop_no_load o); discriminate. }
  subst s'. exists (set_root ob (replace_node hid n2 root1)).
  cbn [save_root m_objs m_res m_writes set_root o_rid o_root].
  rewrite !nlookup_nset_same. auto.
Qed.

(* ---------- M3 ---------- *)
Module M3Cex.
  Definition mkc (k : kind) : cls :=
    {| c_name := []; c_kind := k; c_backend := 0; c_validators := [VNoDot]; c_attr := false;
       c_buf := BufNone; c_threading := false; c_protected := [] |}.
  Definition T : class_table := [mkc KDict; mkc KList].
  Definition ob : obj := {| o_cls := 0; o_rid := 0; o_root := ND 0 0 [] |}.
  Definition s : mstate :=
    {| m_res := [(0, VD [])]; m_writes := []; m_objs := [(0, ob)]; m_next := 1 |}.
  (* d.update([[".", None]]): a list of pairs contains no mapping key, so it passes every
     validator, but the mapping it denotes has the forbidden key "." *)
  Definition arg : val := VL [VL [VS (SStr [46%N]); VS SNull]].
  Definition o : nop := OD (DUpdate arg).
  Definition s' : mstate := fst (step T s (MOp 0 0 o)).

  Lemma inv : Inv T s.
  Proof.
    intros oid o0 H. destruct oid; cbn in H; [|discriminate]. inversion H; subst o0.
    constructor; try reflexivity.
    - cbn. lia.
    - intros c [<-|[]]. reflexivity.
    - cbn. constructor; [intros []|constructor].
    - cbn. intros i [<-|[]]. lia.
  Qed.

  Lemma resv : res_valid T s.
  Proof.
    intros oid o0 c0 H H2. destruct oid; cbn in H; [|discriminate]. inversion H; subst o0.
    cbn in H2. inversion H2; subst c0. repeat split; reflexivity.
  Qed.

  Lemma step_eq : step T s (MOp 0 0 o) = (s', MR (Err EInvalidKey) None).
  Proof. vm_compute. reflexivity. Qed.

  Lemma concl_false :
    ~ ((s' = s /\ exists e, (Err EInvalidKey : res val) = Err e /\
          forall v r' new, plain_nop v o = Some (r', new) -> r' = Err e /\ new = v)
       \/ (exists j p new ob',
             VEq j (VD []) /\ plain_at p o j = Some (Err EInvalidKey, new)
             /\ nlookup 0 (m_objs s') = Some ob'
             /\ (nop_merges o = false -> to_base (o_root ob') = new)
             /\ VEq (to_base (o_root ob')) new
             /\ (nop_is_read o = false -> nlookup (o_rid ob) (m_res s') = Some (to_base (o_root ob')))
             /\ (nop_is_read o = true -> m_res s' = m_res s /\ m_writes s' = m_writes s))).
  Proof.
    intros [[Hs _]|(j & p & new & ob' & Hj & Hp & _)].
    - vm_compute in Hs. discriminate.
    - inversion Hj as [| |d e H1 H2]; subst.
      destruct d as [|[k x] d].
      + destruct p as [|[k|i] p]; vm_compute in Hp; discriminate.
      + destruct (H1 k x) as [y [Hy _]]; [cbn; rewrite key_eqb_refl; reflexivity|discriminate].
  Qed.
End M3Cex.

(* the statement of step_refines_plain as originally given is false *)
Example step_refines_plain_as_given_is_false :
  ~ (forall T s oid hid o s' r h ob c,
      table_ok T = true -> Inv T s -> res_valid T s ->
      nlookup oid (m_objs s) = Some ob -> nlookup (o_rid ob) (m_res s) = Some c ->
      args_ok (lang_of T (o_cls ob)) o = true ->
      (is_root_handle ob hid && nop_no_load o) = false ->
      step T s (MOp oid hid o) = (s', MR r h) ->
      (s' = s /\ exists e, r = Err e /\
         forall v r' new, plain_nop v o = Some (r', new) -> r' = Err e /\ new = v)
      \/
      (exists j p new ob',
         VEq j c /\ plain_at p o j = Some (r, new)
         /\ nlookup oid (m_objs s') = Some ob'
         /\ (nop_merges o = false -> to_base (o_root ob') = new)
         /\ VEq (to_base (o_root ob')) new
         /\ (nop_is_read o = false -> nlookup (o_rid ob) (m_res s') = Some (to_base (o_root ob')))
         /\ (nop_is_read o = true -> m_res s' = m_res s /\ m_writes s' = m_writes s))).
Proof.
  intros H. apply M3Cex.concl_false.
  apply (H M3Cex.T M3Cex.s 0 0 M3Cex.o M3Cex.s' (Err EInvalidKey) None M3Cex.ob (VD [])).
  - vm_compute. reflexivity.
  - exact M3Cex.inv.
  - exact M3Cex.resv.
  - reflexivity.
  - reflexivity.
  - vm_compute. reflexivity.
  - reflexivity.
  - exact M3Cex.step_eq.
Qed.

(* CHANGED: one hypothesis added (the line marked ADDED).  As given the statement is false
   (step_refines_plain_as_given_is_false above): update() also accepts a LIST of [key, value] pairs;
   such an argument contains no mapping key, so [args_ok] (= every validator accepts the argument)
   holds even when the mapping it denotes has a forbidden key (e.g. "a.b" under no_dot_in_key).  The
   library then raises InvalidKeyError after the load, where the built-in dict.update succeeds.  The
   added hypothesis says that the mapping denoted by the argument of update() is valid; it follows from
   [args_ok] when the argument is itself a mapping, so it only restricts list-of-pairs arguments. *)
Theorem step_refines_plain T s oid hid o s' r h ob c :
  table_ok T = true -> Inv T s -> res_valid T s ->
  nlookup oid (m_objs s) = Some ob -> nlookup (o_rid ob) (m_res s) = Some c ->
  args_ok (lang_of T (o_cls ob)) o = true ->
  (forall v od, o = OD (DUpdate v) -> as_mapping v = Ok od ->
                val_ok (lang_of T (o_cls ob)) (VD od) = true) ->                    (* ADDED *)
  (is_root_handle ob hid && nop_no_load o) = false ->
  step T s (MOp oid hid o) = (s', MR r h) ->
  (s' = s /\ exists e, r = Err e /\
     forall v r' new, plain_nop v o = Some (r', new) -> r' = Err e /\ new = v)
  \/
  (exists j p new ob',
     VEq j c /\ plain_at p o j = Some (r, new)
     /\ nlookup oid (m_objs s') = Some ob'
     /\ (nop_merges o = false -> to_base (o_root ob') = new)
     /\ VEq (to_base (o_root ob')) new
     /\ (nop_is_read o = false -> nlookup (o_rid ob) (m_res s') = Some (to_base (o_root ob')))
     /\ (nop_is_read o = true -> m_res s' = m_res s /\ m_writes s' = m_writes s)).
Proof.
  intros HT HI HR Hob Hc Ha Hup Hskip H.
  pose proof (HI oid ob Hob) as I.
  destruct (table_cls_ok T (o_cls ob) HT (oi_cls _ _ _ I)) as [HB [HU Hinb]].
  destruct (step_MOp_early _ _ _ _ _ _ _ H)
    as [[-> [Hbad|(ob0 & n0 & e & Hob0 & Hf0 & Hp0 & Hres)]]|(ob0 & n0 & Hob0 & Hf0 & Hp0)];
    try discriminate.
  - (* rejected by the argument checks *)
    rewrite Hob in Hob0. inversion Hob0; subst ob0. inversion Hres; subst r h.
    left. split; [reflexivity|]. exists e. split; [reflexivity|].
    destruct (find_node_path _ _ _ (oi_keys _ _ _ I) Hf0) as [p0 [Hat0 _]].
    pose proof (node_at_in_backend _ _ _ _ _ Hat0 (oi_backend _ _ _ I)) as Hn0.
    destruct (pre_nop_cls _ _ _ _ Hp0) as [c0 Hc0].
    eapply pre_nop_reject; [exact Hc0| |exact Ha|exact Hp0].
    eapply node_cls_lang; eauto.
  - rewrite Hob in Hob0. inversion Hob0; subst ob0.
    rewrite (step_MOp_eq _ _ _ _ _ _ _ Hob Hf0 Hp0), Hskip in H.
    destruct (load_ok T s oid ob c HT HI HR Hob Hc)
      as [root1 [nx1 [E [L1 [L2 [L3 [L4 [L5 L6]]]]]]]].
    rewrite E in H. unfold step_body in H.
    destruct (find_node hid root1) as [n1|] eqn:Hf1;
      [|destruct (nop_is_read o); discriminate].
    destruct (in_nop T n1 o nx1) as [[[[r1 h1] n2] nx2]|] eqn:Hin; [|discriminate].
    destruct (find_node_path _ _ _ L3 Hf1) as [p [Hat Hid]].
    pose proof (node_at_in_backend _ _ _ _ _ Hat L2) as Hn1.
    assert (Hku1 : node_keys_unique n1 = true) by (apply (node_at_sub _ _ _ Hat); exact L3).
    destruct (in_nop_refines T _ _ n1 o nx1 r1 h1 n2 nx2 HB HU Hn1 Hku1 Ha
                (pre_nop_pass _ _ _ Hp0) Hup Hin) as [c' [Hpl [Hve Hex]]].
    pose proof (replace_node_put hid n2 p root1 n1 Hat Hid L5) as Hput.
    right. exists (to_base root1), p, (put_at p (to_base root1) c'),
             (set_root ob (replace_node hid n2 root1)).
    assert (Hpa : plain_at p o (to_base root1) = Some (r1, put_at p (to_base root1) c')).
    { eapply plain_at_put; [|exact Hpl]. apply node_at_val_at; exact Hat. }
    destruct (nop_is_read o) eqn:Hrd.
    + inversion H; subst s' r h. cbn [keep_root m_objs m_res m_writes set_root o_root].
      split; [exact L1|]. split; [exact Hpa|]. split; [apply nlookup_nset_same|].
      split; [intros Hm; rewrite Hput, (Hex Hm); reflexivity|].
      split; [rewrite Hput; apply VEq_put; exact Hve|].
      split; [discriminate|auto].
    + assert (H' : (save_root s oid ob (replace_node hid n2 root1) nx2, MR r1 h1) = (s', MR r h))
        by (destruct r1; exact H).
      clear H. inversion H'; subst s' r h.
      cbn [save_root m_objs m_res m_writes set_root o_root].
      split; [exact L1|]. split; [exact Hpa|]. split; [apply nlookup_nset_same|].
      split; [intros Hm; rewrite Hput, (Hex Hm); reflexivity|].
      split; [rewrite Hput; apply VEq_put; exact Hve|].
      split; [intros _; apply nlookup_nset_same|discriminate].
Qed.

(* ---------- M4 ---------- *)
Theorem root_clear_reset T s oid hid o s' r h ob :
  table_ok T = true -> Inv T s -> nlookup oid (m_objs s) = Some ob ->
  is_root_handle ob hid = true -> nop_no_load o = true -> args_ok (lang_of T (o_cls ob)) o = true ->
  step T s (MOp oid hid o) = (s', MR r h) ->
  (exists e, r = Err e /\ s' = s)
  \/ (r = Ok vnone /\ exists ob' new, nlookup oid (m_objs s') = Some ob'
        /\ nlookup (o_rid ob) (m_res s') = Some (to_base (o_root ob'))
        /\ VEq (to_base (o_root ob')) new
        /\ match o with
           | OL LClear => new = VL [] | OD DClear => new = VD []
           | OL (LReset v) | OD (DReset v) => new = v
           | _ => False end).
Proof.
  intros HT HI Hob Hroot Hnl Ha H.
  pose proof (HI oid ob Hob) as I.
  destruct (table_cls_ok T (o_cls ob) HT (oi_cls _ _ _ I)) as [HB [HU Hinb]].
  pose proof (is_root_handle_id _ _ Hroot) as Hid.
  pose proof (find_node_root _ _ Hid) as Hfr.
  destruct (step_MOp_early _ _ _ _ _ _ _ H)
    as [[-> [Hbad|(ob0 & n0 & e & Hob0 & Hf0 & Hp0 & Hres)]]|(ob0 & n0 & Hob0 & Hf0 & Hp0)];
    try discriminate.
  - inversion Hres; subst. left. exists e. auto.
  - rewrite Hob in Hob0. inversion Hob0; subst ob0. rewrite Hfr in Hf0. inversion Hf0; subst n0.
    rewrite (step_MOp_eq _ _ _ _ _ _ _ Hob Hfr Hp0), Hroot, Hnl in H. cbn [andb] in H.
    unfold step_body in H. rewrite Hfr, (no_load_not_read _ Hnl) in H.
    destruct (in_nop T (o_root ob) o (m_next s)) as [[[[r1 h1] n2] nx2]|] eqn:Hi; [|discriminate].
    rewrite (replace_root _ _ _ Hid) in H.
    assert (Hup : update_arg_ok (lang_of T (o_cls ob)) o).
    { intros v od Eo _. subst o. discriminate. }
    destruct (in_nop_refines T _ _ (o_root ob) o (m_next s) r1 h1 n2 nx2 HB HU
                (oi_backend _ _ _ I) (oi_keys _ _ _ I) Ha (pre_nop_pass _ _ _ Hp0) Hup Hi)
      as [c' [Hpl [Hve _]]].
    pose proof (pre_nop_pass _ _ _ Hp0) as Hrk.
    assert (Hr1 : r1 = Ok vnone /\ match o with
                                   | OL LClear => c' = VL [] | OD DClear => c' = VD []
                                   | OL (LReset v) | OD (DReset v) => c' = v
                                   | _ => False end).
    { destruct (to_base (o_root ob)) as [sv|lv|dv], o as [lo|dop]; cbn [plain_nop] in Hpl;
        try discriminate.
      - destruct lo; try discriminate Hnl.
        + cbn [plain_lop] in Hpl. inversion Hpl; auto.
        + cbn [reset_kind_ok] in Hrk. destruct v; try discriminate Hrk.
          cbn [plain_lop] in Hpl. inversion Hpl; auto.
      - destruct dop; try discriminate Hnl.
        + cbn [plain_dop] in Hpl. inversion Hpl; auto.
        + cbn [reset_kind_ok] in Hrk. destruct v; try discriminate Hrk.
          cbn [plain_dop] in Hpl. inversion Hpl; auto. }
    destruct Hr1 as [-> Hnew]. inversion H; subst s' r h.
    right. split; [reflexivity|]. exists (set_root ob n2), c'.
    cbn [save_root m_objs m_res m_writes set_root o_root].
    rewrite !nlookup_nset_same. auto.
Qed.

(* ---------- M5 ---------- *)
Theorem read_keeps_handles T s oid hid o s' res ob c :
  table_ok T = true -> Inv T s -> res_valid T s ->
  nlookup oid (m_objs s) = Some ob -> nlookup (o_rid ob) (m_res s) = Some c ->
  nop_is_read o = true -> step T s (MOp oid hid o) = (s', res) ->
  forall p m, node_at p (o_root ob) = Some m -> same_kinds_along p (o_root ob) c ->
  exists ob' m', nlookup oid (m_objs s') = Some ob' /\ node_at p (o_root ob') = Some m' /\ node_id m' = node_id m.
Proof.
  intros HT HI HR Hob Hc Hrd H p m Hat Hsk.
  destruct (step_MOp_early _ _ _ _ _ _ _ H) as [[-> _]|(ob0 & n0 & Hob0 & Hf0 & Hp0)].
  - exists ob, m. auto.
  - rewrite Hob in Hob0. inversion Hob0; subst ob0.
    rewrite (step_MOp_eq _ _ _ _ _ _ _ Hob Hf0 Hp0), (read_not_no_load _ Hrd), andb_false_r in H.
    destruct (load_ok T s oid ob c HT HI HR Hob Hc)
      as [root1 [nx1 [E [L1 [L2 [L3 [L4 [L5 L6]]]]]]]].
    rewrite E in H. unfold step_body in H. rewrite Hrd in H.
    destruct (L6 p m Hat Hsk) as [m' [M1 M2]].
    destruct (find_node hid root1) as [n1|] eqn:Hf1.
    + destruct (in_nop T n1 o nx1) as [[[[r1 h1] n2] nx2]|] eqn:Hin.
      * destruct (in_nop_read _ _ _ _ _ _ _ _ Hrd Hin) as [-> ->].
        rewrite (replace_same _ _ _ L5 Hf1) in H. inversion H; subst s' res.
        exists (set_root ob root1), m'. cbn [keep_root m_objs set_root o_root].
        rewrite nlookup_nset_same. auto.
      * inversion H; subst. exists ob, m. auto.
    + inversion H; subst s' res.
      exists (set_root ob root1), m'. cbn [keep_root m_objs set_root o_root].
      rewrite nlookup_nset_same. auto.
Qed.

(* ---------- M6 ---------- *)
Theorem touch_is_noop T s oid mut s' res ob c :
  table_ok T = true -> Inv T s -> res_valid T s ->
  nlookup oid (m_objs s) = Some ob -> nlookup (o_rid ob) (m_res s) = Some c ->
  step T s (MTouch oid mut) = (s', res) ->
  exists c', nlookup (o_rid ob) (m_res s') = Some c' /\ VEq c' c
    /\ (forall rid, rid <> o_rid ob -> nlookup rid (m_res s') = nlookup rid (m_res s)).
Proof.
  intros HT HI HR Hob Hc H. cbn [step] in H. rewrite Hob in H.
  destruct (load_ok T s oid ob c HT HI HR Hob Hc) as [root1 [nx1 [E [L1 _]]]].
  rewrite E in H. destruct mut; inversion H; subst s' res; cbn [save_root keep_root m_res].
  - exists (to_base root1). rewrite nlookup_nset_same. split; [reflexivity|]. split; [exact L1|].
    intros rid Hne. apply nlookup_nset_other; exact Hne.
  - exists c. split; [exact Hc|]. split; [apply VEq_refl|reflexivity].
Qed.

Print Assumptions upd_ids_r.
Print Assumptions mutator_writes_through.
Print Assumptions in_lop_refines_plain.
Print Assumptions in_dop_refines_plain.
Print Assumptions step_refines_plain_as_given_is_false.
Print Assumptions step_refines_plain.
Print Assumptions root_clear_reset.
Print Assumptions read_keeps_handles.
Print Assumptions touch_is_noop.
