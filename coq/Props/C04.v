(* C04 — Writes through any handle never clobber changes made via other handles.  Property theorems only. *)
From Coq Require Import List Bool NArith ZArith.
From SC Require Import Model.Val Model.Plain Model.Ops Model.Valid Model.Class Model.Tree Model.Machine.
From SC Require Import Proofs.TreeDefs Proofs.MachineDefs Proofs.MachineRefine Proofs.MachineInv Gen.ClassTable Gen.Obligations.
Import ListNotations.

(* every mutator (clear() and reset() on nested children included), through ANY handle of ANY object bound to
   the resource, is applied to the resource's CURRENT content c — not to what that object had cached: the new
   content is the plain operation at the handle's position on data equal to c.  Whatever other handles
   wrote to other parts of c in the meantime is therefore still there. *)
Theorem C04_apply_to_current : forall T s oid hid o s' r h ob c,
  table_ok T = true -> Inv T s -> res_valid T s ->
  nlookup oid (m_objs s) = Some ob -> nlookup (o_rid ob) (m_res s) = Some c ->
  args_ok (lang_of T (o_cls ob)) o = true ->
  (forall v od, o = OD (DUpdate v) -> as_mapping v = Ok od -> val_ok (lang_of T (o_cls ob)) (VD od) = true) ->
  (is_root_handle ob hid && nop_no_load o) = false ->
  step T s (MOp oid hid o) = (s', MR r h) ->
  (s' = s /\ exists e, r = Err e /\ forall v r' new, plain_nop v o = Some (r', new) -> r' = Err e /\ new = v)
  \/
  (exists j p new ob',
     VEq j c /\ plain_at p o j = Some (r, new)
     /\ nlookup oid (m_objs s') = Some ob'
     /\ (nop_merges o = false -> to_base (o_root ob') = new)
     /\ VEq (to_base (o_root ob')) new
     /\ (nop_is_read o = false -> nlookup (o_rid ob) (m_res s') = Some (to_base (o_root ob')))
     /\ (nop_is_read o = true -> m_res s' = m_res s /\ m_writes s' = m_writes s)).
Proof. exact step_refines_plain. Qed.
Print Assumptions C04_apply_to_current.

(* the nested clear()/reset() case is inside that theorem: they are not root operations, so they load *)
Example C04_nested_clear_is_covered : forall ob hid,
  is_root_handle ob hid = false -> (is_root_handle ob hid && nop_no_load (OD DClear)) = false.
Proof. intros ob hid H. rewrite H. reflexivity. Qed.

(* used alternately from one thread, any number of objects and retained handles behave as operations on one
   shared plain structure: the invariant needed by the theorem above holds after every history *)
Theorem C04_all_histories : forall ops s,
  Inv class_table s -> res_valid class_table s -> same_family class_table s -> res_nodup s ->
  (forall pre op post, ops = pre ++ op :: post ->
     op_admissible class_table (fst (run class_table pre s)) op /\ op_args_wf op) ->
  Inv class_table (fst (run class_table ops s)) /\ res_valid class_table (fst (run class_table ops s))
  /\ same_family class_table (fst (run class_table ops s)).
Proof.
  intros ops s I R F N A.
  destruct (run_preserves_inv class_table ops s gen_table_ok I R F N A) as [I' [R' [F' _]]]. auto.
Qed.
Print Assumptions C04_all_histories.

(* the defect repaired by 3552243 (a nested clear() that saved the owner's stale tree) is a different machine:
   witness that NOT loading loses another handle's write *)
Example C04_stale_save_would_clobber :
  let stale := VD [(KStr [97%N], VD [])] in            (* what o1 cached: {"a": {}} *)
  let current := VD [(KStr [97%N], VD []); (KStr [98%N], VS (SInt 2))] in   (* o2 added b = 2 *)
  exists new, plain_at [PKey (KStr [97%N])] (OD DClear) stale = Some (Ok vnone, new) /\ veq_strict new current = false.
Proof. eexists. split; [reflexivity|reflexivity]. Qed.
