(* TreeIds.v — object identities across the merge (upd_ids) and the
   well-formedness facts the merge preserves for ANY data (upd_wf). *)
From Coq Require Import List ZArith NArith Bool Lia Arith.
From SC Require Import Model.Val Model.Plain Model.Valid Model.Class Model.Tree Proofs.TreeDefs.
From SC Require Export Proofs.TreeLemmas.
Import ListNotations.

(* ------------------------------------------------------------------ *)
(* lists of identities                                                 *)
(* ------------------------------------------------------------------ *)

Definition lids (l : list node) : list nat := flat_map node_ids l.
Definition eids (d : list (key * node)) : list nat :=
  flat_map (fun kn : key * node => node_ids (snd kn)) d.

Lemma NoDup_app_inv {A} (l1 l2 : list A) :
  NoDup (l1 ++ l2) -> NoDup l1 /\ NoDup l2 /\ (forall x, In x l1 -> ~ In x l2).
Proof.
  induction l1 as [|a l1 IH]; simpl; intros H.
  - split; [constructor|]. split; [exact H|]. intros x [].
  - inversion H as [|? ? Hn Hd]; subst. destruct (IH Hd) as [H1 [H2 H3]].
    split; [|split].
    + constructor; [|exact H1]. intros Hin. apply Hn. apply in_or_app. left; exact Hin.
    + exact H2.
    + intros x [<-|Hx].
      * intros Hin. apply Hn. apply in_or_app. right; exact Hin.
      * apply H3; exact Hx.
Qed.

(* [old] are the ids before, all below the supply [nx]; [new] the ids after *)
Definition ids_pre (old : list nat) (nx : nat) : Prop :=
  NoDup old /\ (forall i, In i old -> i < nx).
Definition ids_step (old : list nat) (nx : nat) (new : list nat) (nx' : nat) : Prop :=
  nx <= nx' /\ NoDup new /\ (forall i, In i new -> In i old \/ nx <= i < nx').

Lemma ids_step_refl old nx : ids_pre old nx -> ids_step old nx old nx.
Proof. intros [H1 H2]. split; [lia|]. split; [exact H1|]. intros i Hi. left; exact Hi. Qed.

Lemma ids_step_fresh old nx new nx' :
  nx <= nx' -> NoDup new -> (forall i, In i new -> nx <= i < nx') -> ids_step old nx new nx'.
Proof. intros H1 H2 H3. split; [exact H1|]. split; [exact H2|]. intros i Hi. right; auto. Qed.

Lemma ids_step_trans A nx B nx1 C nx2 :
  ids_step A nx B nx1 -> ids_step B nx1 C nx2 -> ids_step A nx C nx2.
Proof.
  intros [A1 [A2 A3]] [B1 [B2 B3]]. split; [lia|]. split; [exact B2|].
  intros i Hi. destruct (B3 i Hi) as [Hb|Hb].
  - destruct (A3 i Hb) as [Ha|Ha]; [left; exact Ha|right; lia].
  - right; lia.
Qed.

Lemma ids_step_pre old nx new nx' : ids_pre old nx -> ids_step old nx new nx' -> ids_pre new nx'.
Proof.
  intros [P1 P2] [A1 [A2 A3]]. split; [exact A2|].
  intros i Hi. destruct (A3 i Hi) as [H|H]; [apply P2 in H; lia|lia].
Qed.

Lemma ids_pre_mono old nx nx' : ids_pre old nx -> nx <= nx' -> ids_pre old nx'.
Proof. intros [P1 P2] H. split; [exact P1|]. intros i Hi. apply P2 in Hi. lia. Qed.

Lemma ids_pre_app a b nx : ids_pre (a ++ b) nx -> ids_pre a nx /\ ids_pre b nx.
Proof.
  intros [P1 P2]. apply NoDup_app_inv in P1. destruct P1 as [N1 [N2 _]].
  split; (split; [assumption|]); intros i Hi; apply P2; apply in_or_app; auto.
Qed.

Lemma ids_step_old_incl a old nx a' nx' :
  ids_step a nx a' nx' -> incl a old -> ids_step old nx a' nx'.
Proof.
  intros [A1 [A2 A3]] Hi. split; [exact A1|]. split; [exact A2|].
  intros i H. destruct (A3 i H) as [H1|H1]; [left; apply Hi; exact H1|right; exact H1].
Qed.

Lemma ids_step_app a b nx a' nx1 b' nx2 :
  ids_pre (a ++ b) nx -> ids_step a nx a' nx1 -> ids_step b nx1 b' nx2 ->
  ids_step (a ++ b) nx (a' ++ b') nx2.
Proof.
  intros [P1 P2] [A1 [A2 A3]] [B1 [B2 B3]].
  apply NoDup_app_inv in P1. destruct P1 as [N1 [N2 N3]].
  split; [lia|]. split.
  - apply NoDup_app'; auto. intros i Hi Hi2.
    destruct (A3 i Hi) as [Ha|Ha]; destruct (B3 i Hi2) as [Hb|Hb].
    + exact (N3 i Ha Hb).
    + assert (i < nx) by (apply P2; apply in_or_app; left; exact Ha). lia.
    + assert (i < nx) by (apply P2; apply in_or_app; right; exact Hb). lia.
    + lia.
  - intros i Hi. apply in_app_or in Hi. destruct Hi as [Hi|Hi].
    + destruct (A3 i Hi) as [Ha|Ha]; [left; apply in_or_app; left; exact Ha|right; lia].
    + destruct (B3 i Hi) as [Hb|Hb]; [left; apply in_or_app; right; exact Hb|right; lia].
Qed.

(* replace the middle segment *)
Lemma ids_step_mid pre a post nx a' nx' :
  ids_pre (pre ++ a ++ post) nx -> ids_step a nx a' nx' ->
  ids_step (pre ++ a ++ post) nx (pre ++ a' ++ post) nx'.
Proof.
  intros P S. pose proof S as [S1 _].
  destruct (ids_pre_app _ _ _ P) as [Ppre Prest].
  apply (ids_step_app pre (a ++ post) nx pre nx (a' ++ post) nx'); [exact P| |].
  - apply ids_step_refl; exact Ppre.
  - apply (ids_step_app a post nx a' nx' post nx'); [exact Prest|exact S|].
    apply ids_step_refl. destruct (ids_pre_app _ _ _ Prest) as [_ Pp].
    eapply ids_pre_mono; [exact Pp|lia].
Qed.

Lemma ids_step_cons id old nx new nx' :
  ids_pre (id :: old) nx -> ids_step old nx new nx' -> ids_step (id :: old) nx (id :: new) nx'.
Proof.
  intros P S.
  pose proof (ids_step_mid [id] old [] nx new nx') as H. rewrite !app_nil_r in H.
  simpl in H. apply H; assumption.
Qed.

Lemma ids_step_filter {A} (f : A -> list nat) p l nx :
  ids_pre (flat_map f l) nx -> ids_step (flat_map f l) nx (flat_map f (filter p l)) nx.
Proof.
  intros [P1 P2]. split; [lia|]. split.
  - clear P2. induction l as [|x l IH]; simpl in *; [constructor|].
    apply NoDup_app_inv in P1. destruct P1 as [N1 [N2 N3]].
    destruct (p x); simpl; [|auto].
    apply NoDup_app'; auto. intros i Hi Hi2. apply (N3 i Hi).
    apply in_flat_map in Hi2. destruct Hi2 as [y [Hy Hi2]]. apply filter_In in Hy.
    apply in_flat_map. exists y. tauto.
  - intros i Hi. left. apply in_flat_map in Hi. destruct Hi as [y [Hy Hi]].
    apply filter_In in Hy. apply in_flat_map. exists y. tauto.
Qed.

(* ------------------------------------------------------------------ *)
(* dict_set as an in-place replacement                                 *)
(* ------------------------------------------------------------------ *)

Lemma dict_set_split {A} k (d : list (key * A)) ex :
  alookup k d = Some ex ->
  exists l1 l2, d = l1 ++ (k, ex) :: l2 /\ forall n, dict_set d k n = l1 ++ (k, n) :: l2.
Proof.
  induction d as [|[k' v] d IH]; simpl; intros H.
  - discriminate.
  - destruct (key_eqb k k') eqn:E.
    + apply key_eqb_eq in E. subst k'. inversion H; subst v.
      exists [], d. split; [reflexivity|]. intros n. reflexivity.
    + destruct (IH H) as [l1 [l2 [E1 E2]]]. exists ((k', v) :: l1), l2. split.
      * simpl. rewrite E1. reflexivity.
      * intros n. rewrite E2. reflexivity.
Qed.

Lemma dict_set_new {A} k (d : list (key * A)) n :
  alookup k d = None -> dict_set d k n = d ++ [(k, n)].
Proof.
  induction d as [|[k' v] d IH]; simpl; intros H.
  - reflexivity.
  - destruct (key_eqb k k'); [discriminate|]. rewrite IH; auto.
Qed.

Lemma eids_app d1 d2 : eids (d1 ++ d2) = eids d1 ++ eids d2.
Proof. unfold eids. apply flat_map_app. Qed.

Lemma lids_app d1 d2 : lids (d1 ++ d2) = lids d1 ++ lids d2.
Proof. unfold lids. apply flat_map_app. Qed.

Lemma eids_cons k n d : eids ((k, n) :: d) = node_ids n ++ eids d.
Proof. reflexivity. Qed.

(* replacing / adding the entry of key k *)
Lemma ids_step_dict_set d k n nx nx1 :
  ids_pre (eids d) nx ->
  (forall ex, alookup k d = Some ex -> ids_step (node_ids ex) nx (node_ids n) nx1) ->
  (alookup k d = None -> ids_step [] nx (node_ids n) nx1) ->
  ids_step (eids d) nx (eids (dict_set d k n)) nx1.
Proof.
  intros P HS HN. destruct (alookup k d) as [ex|] eqn:E.
  - destruct (dict_set_split _ _ _ E) as [l1 [l2 [E1 E2]]].
    rewrite E2. rewrite E1 in P |- *. rewrite !eids_app, !eids_cons in *.
    apply ids_step_mid; [exact P|]. apply HS; reflexivity.
  - rewrite (dict_set_new _ _ _ E). rewrite eids_app, eids_cons. simpl eids.
    pose proof (ids_step_mid (eids d) [] [] nx (node_ids n ++ []) nx1) as H.
    simpl in H. rewrite !app_nil_r in H. rewrite app_nil_r. apply H; [exact P|].
    apply HN; reflexivity.
Qed.

(* ------------------------------------------------------------------ *)
(* upd_ids                                                             *)
(* ------------------------------------------------------------------ *)

Section UpdIds.
  Variable T : class_table.

  Definition upd_ids_at (f : node -> nat -> node * nat * option err) : Prop :=
    forall ex nx ex' nx' e, ids_pre (node_ids ex) nx -> f ex nx = (ex', nx', e) ->
      ids_step (node_ids ex) nx (node_ids ex') nx'.

  Lemma from_base_ids_step old c nv nx n nx1 :
    from_base T c nv nx = (n, nx1) -> ids_step old nx (node_ids n) nx1.
  Proof.
    intros E. pose proof (from_base_fresh T c nv nx) as [F1 [F2 F3]].
    rewrite E in *. simpl in *. apply ids_step_fresh; auto.
  Qed.

  Lemma map_from_base_ids_step old c dl nx tl nx1 :
    map_st (from_base T c) dl nx = (tl, nx1) -> ids_step old nx (lids tl) nx1.
  Proof.
    intros E. apply map_st_rel_intro in E.
    destruct (map_st_rel_fresh _ node_ids _ _ _ _ E) as [G1 [G2 G3]].
    { apply Forall_forall. intros a _ s. apply from_base_fresh. }
    apply ids_step_fresh; auto.
  Qed.

  Lemma replace_ids c wrapped nv ex0 nx0 n nx1 e old nx :
    ids_step old nx (node_ids ex0) nx0 ->
    match validate (validators_of T c) wrapped with
    | Some e => (ex0, nx0, Some e)
    | None => let (n, nx1) := from_base T c nv nx0 in (n, nx1, None)
    end = (n, nx1, e) -> ids_step old nx (node_ids n) nx1.
  Proof.
    intros S H. destruct (validate (validators_of T c) wrapped).
    - inversion H; subst. exact S.
    - destruct (from_base T c nv nx0) as [n0 nx2] eqn:E. inversion H; subst.
      pose proof (from_base_fresh T c nv nx0) as [F1 [F2 F3]]. rewrite E in *. simpl in *.
      destruct S as [S1 _]. apply ids_step_fresh; [lia|exact F3|].
      intros i Hi. apply F2 in Hi. lia.
  Qed.

  Lemma merge_one_ids u c wrapped nv ex nx n nx1 e :
    upd_ids_at (u nv) -> ids_pre (node_ids ex) nx ->
    merge_one T u c wrapped nv ex nx = (n, nx1, e) -> ids_step (node_ids ex) nx (node_ids n) nx1.
  Proof.
    intros Hu P H. unfold merge_one in H. cbv beta zeta in H.
    destruct (skip_same nv ex). { inversion H; subst. apply ids_step_refl; exact P. }
    destruct (node_is_container ex && negb (is_null nv)).
    - destruct (u nv ex nx) as [[ex' nx'] [e'|]] eqn:E.
      + pose proof (Hu _ _ _ _ _ P E) as S. destruct (err_is_value_error e').
        * eapply replace_ids; eauto.
        * inversion H; subst; exact S.
      + inversion H; subst. eapply Hu; eauto.
    - eapply replace_ids; [|exact H]. apply ids_step_refl; exact P.
  Qed.

  Lemma upd_prefix_ids u c dl :
    Forall (fun nv => upd_ids_at (u nv)) dl ->
    forall l nx l' nx' e, ids_pre (lids l) nx -> upd_prefix T u c dl l nx = (l', nx', e) ->
      ids_step (lids l) nx (lids l') nx'.
  Proof.
    intros HF. induction HF as [|nv dl Hnv HF IH]; intros l nx l' nx' e P H.
    - rewrite upd_prefix_nil in H. inversion H; subst. apply ids_step_fresh; [lia|constructor|intros i []].
    - destruct l as [|ex l].
      + rewrite upd_prefix_cons_nil in H.
        destruct (validate (validators_of T c) (VL (nv :: dl))).
        * inversion H; subst. apply ids_step_refl; exact P.
        * destruct (map_st (from_base T c) (nv :: dl) nx) as [tl nx1] eqn:E2.
          inversion H; subst. eapply map_from_base_ids_step; eauto.
      + rewrite upd_prefix_cons_cons in H.
        change (lids (ex :: l)) with (node_ids ex ++ lids l) in *.
        destruct (ids_pre_app _ _ _ P) as [Pex Pl].
        destruct (merge_one T u c nv nv ex nx) as [[n nx1] [e1|]] eqn:E.
        * inversion H; subst. change (lids (n :: l)) with (node_ids n ++ lids l).
          pose proof (merge_one_ids _ _ _ _ _ _ _ _ _ Hnv Pex E) as S.
          apply (ids_step_app _ _ nx _ nx' _ nx'); [exact P|exact S|].
          apply ids_step_refl. eapply ids_pre_mono; [exact Pl|]. destruct S; assumption.
        * destruct (upd_prefix T u c dl l nx1) as [[l2 nx2] e2] eqn:E2.
          inversion H; subst. change (lids (n :: l2)) with (node_ids n ++ lids l2).
          pose proof (merge_one_ids _ _ _ _ _ _ _ _ _ Hnv Pex E) as S.
          apply (ids_step_app _ _ nx _ nx1 _ nx'); [exact P|exact S|].
          eapply IH; [|exact E2]. eapply ids_pre_mono; [exact Pl|]. destruct S; assumption.
  Qed.

  Lemma upd_entries_ids u c dd :
    Forall (fun kv : key * val => upd_ids_at (u (snd kv))) dd ->
    forall d nx d' nx' e, ids_pre (eids d) nx -> upd_entries T u c dd d nx = (d', nx', e) ->
      ids_step (eids d) nx (eids d') nx'.
  Proof.
    intros HF. induction HF as [|[k nv] dd Hnv HF IH]; intros d nx d' nx' e P H.
    - rewrite upd_entries_nil in H. inversion H; subst. apply ids_step_refl; exact P.
    - rewrite upd_entries_cons in H. simpl in Hnv.
      destruct (alookup k d) as [ex|] eqn:Ek.
      + destruct (merge_one T u c (VD [(k, nv)]) nv ex nx) as [[n nx1] e1] eqn:E.
        assert (S : ids_step (eids d) nx (eids (dict_set d k n)) nx1).
        { apply ids_step_dict_set; [exact P| |].
          - intros ex0 H0. rewrite Ek in H0. inversion H0; subst ex0.
            eapply merge_one_ids; [exact Hnv| |exact E].
            destruct (dict_set_split _ _ _ Ek) as [l1 [l2 [E1 _]]]. rewrite E1 in P.
            rewrite eids_app, eids_cons in P.
            destruct (ids_pre_app _ _ _ P) as [_ P2]. destruct (ids_pre_app _ _ _ P2) as [P3 _].
            exact P3.
          - intros H0. congruence. }
        destruct e1 as [e1|].
        * inversion H; subst. exact S.
        * eapply ids_step_trans; [exact S|]. eapply IH; [|exact H].
          eapply ids_step_pre; eauto.
      + destruct (validate (validators_of T c) (VD [(k, nv)])).
        * inversion H; subst. apply ids_step_refl; exact P.
        * destruct (from_base T c nv nx) as [n nx1] eqn:E.
          assert (S : ids_step (eids d) nx (eids (dict_set d k n)) nx1).
          { apply ids_step_dict_set; [exact P| |].
            - intros ex0 H0. congruence.
            - intros _. eapply from_base_ids_step; eauto. }
          eapply ids_step_trans; [exact S|]. eapply IH; [|exact H].
          eapply ids_step_pre; eauto.
  Qed.

  Lemma ids_pre_NL id c l nx : ids_pre (node_ids (NL id c l)) nx -> ids_pre (lids l) nx.
  Proof. intros P. apply (ids_pre_app [id] (lids l)). exact P. Qed.
  Lemma ids_pre_ND id c d nx : ids_pre (node_ids (ND id c d)) nx -> ids_pre (eids d) nx.
  Proof. intros P. apply (ids_pre_app [id] (eids d)). exact P. Qed.

  Lemma upd_ids_all data : upd_ids_at (upd T data).
  Proof.
    induction data as [s|dl IH|dd IH] using val_ind2; intros ex nx ex' nx' e P H.
    - rewrite upd_mismatch in H.
      + inversion H; subst. apply ids_step_refl; exact P.
      + destruct ex; simpl; auto; left; discriminate.
    - destruct ex as [v|id c l|id c d].
      + rewrite upd_mismatch in H; [|right; reflexivity]. inversion H; subst. apply ids_step_refl; exact P.
      + rewrite upd_NL_VL in H.
        destruct (upd_prefix T (fun v => upd T v) c dl l nx) as [[l' nx2] e2] eqn:E.
        inversion H; subst. apply (ids_step_cons id (lids l) nx (lids l') nx'); [exact P|].
        eapply (upd_prefix_ids (fun v => upd T v)); [exact IH| |exact E].
        eapply ids_pre_NL; exact P.
      + rewrite upd_mismatch in H; [|left; discriminate]. inversion H; subst. apply ids_step_refl; exact P.
    - destruct ex as [v|id c l|id c d].
      + rewrite upd_mismatch in H; [|right; reflexivity]. inversion H; subst. apply ids_step_refl; exact P.
      + rewrite upd_mismatch in H; [|left; discriminate]. inversion H; subst. apply ids_step_refl; exact P.
      + rewrite upd_ND_VD in H.
        destruct (upd_entries T (fun v => upd T v) c dd d nx) as [[d' nx2] e2] eqn:E.
        pose proof (ids_pre_ND _ _ _ _ P) as Pd.
        assert (S : ids_step (eids d) nx (eids d') nx2).
        { eapply (upd_entries_ids (fun v => upd T v)); [exact IH|exact Pd|exact E]. }
        destruct e2 as [e2|]; inversion H; subst.
        * apply (ids_step_cons id (eids d) nx (eids d') nx'); assumption.
        * apply (ids_step_cons id (eids d) nx (eids (keep_keys d' dd)) nx'); [exact P|].
          eapply ids_step_trans; [exact S|]. unfold keep_keys, eids.
          apply ids_step_filter. eapply ids_step_pre; eauto.
  Qed.
End UpdIds.

(* the strong form: every id after the merge is an old id or a fresh one *)
Theorem upd_ids_step T data n nx n' nx' e :
  upd T data n nx = (n', nx', e) -> ids_pre (node_ids n) nx ->
  ids_step (node_ids n) nx (node_ids n') nx'.
Proof. intros H P. eapply upd_ids_all; eauto. Qed.

Theorem upd_entries_ids_step T c dd d nx d' nx' e :
  upd_entries T (fun v => upd T v) c dd d nx = (d', nx', e) -> ids_pre (eids d) nx ->
  ids_step (eids d) nx (eids d') nx'.
Proof.
  intros H P. eapply (upd_entries_ids T (fun v => upd T v)); [|exact P|exact H].
  apply Forall_forall. intros kv _. apply upd_ids_all.
Qed.

(* identities: the merge keeps old ids or allocates fresh ones; holds for ANY data, also when upd reports an error *)
Theorem upd_ids T data n nx n' nx' e :
  upd T data n nx = (n', nx', e) ->
  (forall i, In i (node_ids n) -> i < nx) -> NoDup (node_ids n) ->
  NoDup (node_ids n') /\ (forall i, In i (node_ids n') -> i < nx') /\ nx <= nx'.
Proof.
  intros H Hlt Hnd. assert (P : ids_pre (node_ids n) nx) by (split; assumption).
  pose proof (upd_ids_step _ _ _ _ _ _ _ H P) as S.
  destruct (ids_step_pre _ _ _ _ P S) as [Q1 Q2]. destruct S as [S1 _]. auto.
Qed.

(* ------------------------------------------------------------------ *)
(* a generic preservation scheme for structural predicates             *)
(* ------------------------------------------------------------------ *)

Section UpdPres.
  Variables (T : class_table) (b : nat).
  Variable Q : node -> Prop.               (* the predicate preserved *)
  Variable D : val -> Prop.                (* what is required of the incoming data *)
  Variables CL CD : nat -> Prop.           (* conditions on the class of a list / dict node *)
  Variable KU : list (key * node) -> Prop. (* condition on the entry list of a dict node *)
  Hypothesis Q_NL : forall id c l, Q (NL id c l) <-> CL c /\ Forall Q l.
  Hypothesis Q_ND : forall id c d,
      Q (ND id c d) <-> CD c /\ KU d /\ Forall (fun kn : key * node => Q (snd kn)) d.
  Hypothesis CL_b : forall c, CL c -> in_backend T b c = true.
  Hypothesis CD_b : forall c, CD c -> in_backend T b c = true.
  Hypothesis KU_set : forall d k n, KU d -> KU (dict_set d k n).
  Hypothesis KU_keep : forall d (dd : list (key * val)), KU d -> KU (keep_keys d dd).
  Hypothesis D_VL : forall l, D (VL l) -> Forall D l.
  Hypothesis D_VD : forall d, D (VD d) -> Forall (fun kv : key * val => D (snd kv)) d.
  Hypothesis Q_fb : forall c nv nx, in_backend T b c = true -> D nv -> Q (fst (from_base T c nv nx)).

  Definition pres_at (f : node -> nat -> node * nat * option err) : Prop :=
    forall ex nx ex' nx' e, Q ex -> f ex nx = (ex', nx', e) -> Q ex'.

  Lemma replace_pres c wrapped nv ex0 nx0 n nx1 e :
    in_backend T b c = true -> D nv -> Q ex0 ->
    match validate (validators_of T c) wrapped with
    | Some e => (ex0, nx0, Some e)
    | None => let (n, nx1) := from_base T c nv nx0 in (n, nx1, None)
    end = (n, nx1, e) -> Q n.
  Proof.
    intros Hc Hd Hq H. destruct (validate (validators_of T c) wrapped).
    - inversion H; subst; exact Hq.
    - pose proof (Q_fb c nv nx0 Hc Hd) as G.
      destruct (from_base T c nv nx0) as [n0 nx2]. inversion H; subst. exact G.
  Qed.

  Lemma merge_one_pres u c wrapped nv ex nx n nx1 e :
    in_backend T b c = true -> D nv -> pres_at (u nv) -> Q ex ->
    merge_one T u c wrapped nv ex nx = (n, nx1, e) -> Q n.
  Proof.
    intros Hc Hd Hu Hq H. unfold merge_one in H. cbv beta zeta in H.
    destruct (skip_same nv ex). { inversion H; subst; exact Hq. }
    destruct (node_is_container ex && negb (is_null nv)).
    - destruct (u nv ex nx) as [[ex' nx'] [e'|]] eqn:E.
      + pose proof (Hu _ _ _ _ _ Hq E) as Hq'. destruct (err_is_value_error e').
        * eapply replace_pres; eauto.
        * inversion H; subst; exact Hq'.
      + inversion H; subst. eapply Hu; eauto.
    - eapply replace_pres; eauto.
  Qed.

  Lemma upd_prefix_pres u c dl :
    Forall (fun nv => pres_at (u nv)) dl -> Forall D dl -> in_backend T b c = true ->
    forall l nx l' nx' e, Forall Q l -> upd_prefix T u c dl l nx = (l', nx', e) -> Forall Q l'.
  Proof.
    intros HF. induction HF as [|nv dl Hnv HF IH]; intros HD Hc l nx l' nx' e Hl H.
    - rewrite upd_prefix_nil in H. inversion H; subst. constructor.
    - destruct l as [|ex l].
      + rewrite upd_prefix_cons_nil in H.
        destruct (validate (validators_of T c) (VL (nv :: dl))).
        * inversion H; subst. constructor.
        * destruct (map_st (from_base T c) (nv :: dl) nx) as [tl nx1] eqn:E2.
          inversion H; subst. apply map_st_rel_intro in E2.
          eapply map_st_rel_Forall; [exact E2|].
          eapply Forall_impl; [|exact HD]. intros a Ha s. apply Q_fb; auto.
      + rewrite upd_prefix_cons_cons in H. inversion Hl; subst. inversion HD; subst.
        destruct (merge_one T u c nv nv ex nx) as [[n nx1] [e1|]] eqn:E.
        * inversion H; subst. constructor; auto. eapply merge_one_pres; eauto.
        * destruct (upd_prefix T u c dl l nx1) as [[l2 nx2] e2] eqn:E2.
          inversion H; subst. constructor.
          -- eapply merge_one_pres; eauto.
          -- eapply IH; eauto.
  Qed.

  Definition Qe (kn : key * node) : Prop := Q (snd kn).

  Lemma upd_entries_pres u c dd :
    Forall (fun kv : key * val => pres_at (u (snd kv))) dd ->
    Forall (fun kv : key * val => D (snd kv)) dd -> in_backend T b c = true ->
    forall d nx d' nx' e, KU d -> Forall Qe d ->
      upd_entries T u c dd d nx = (d', nx', e) -> KU d' /\ Forall Qe d'.
  Proof.
    intros HF. induction HF as [|[k nv] dd Hnv HF IH]; intros HD Hc d nx d' nx' e Hk Hd H.
    - rewrite upd_entries_nil in H. inversion H; subst. auto.
    - rewrite upd_entries_cons in H. simpl in Hnv. inversion HD as [|? ? HD1 HD2]; subst. simpl in HD1.
      destruct (alookup k d) as [ex|] eqn:Ek.
      + assert (Hex : Q ex).
        { apply alookup_In in Ek. rewrite Forall_forall in Hd. apply (Hd (k, ex)). exact Ek. }
        destruct (merge_one T u c (VD [(k, nv)]) nv ex nx) as [[n nx1] e1] eqn:E.
        assert (Hn : Q n) by (eapply merge_one_pres; eauto).
        assert (Hd1 : Forall Qe (dict_set d k n)) by (apply Forall_dict_set; auto).
        destruct e1 as [e1|].
        * inversion H; subst. split; [apply KU_set; exact Hk|exact Hd1].
        * eapply IH; [exact HD2|exact Hc| | |exact H]; [apply KU_set; exact Hk|exact Hd1].
      + destruct (validate (validators_of T c) (VD [(k, nv)])).
        * inversion H; subst. auto.
        * pose proof (Q_fb c nv nx Hc HD1) as G.
          destruct (from_base T c nv nx) as [n nx1]. simpl in G.
          eapply IH; [exact HD2|exact Hc| | |exact H]; [apply KU_set; exact Hk|].
          apply Forall_dict_set; auto.
  Qed.

  Lemma upd_pres_all data : D data -> pres_at (upd T data).
  Proof.
    induction data as [s|dl IH|dd IH] using val_ind2; intros HD ex nx ex' nx' e Hq H.
    - rewrite upd_mismatch in H.
      + inversion H; subst; exact Hq.
      + destruct ex; simpl; auto; left; discriminate.
    - destruct ex as [v|id c l|id c d].
      + rewrite upd_mismatch in H; [|right; reflexivity]. inversion H; subst; exact Hq.
      + rewrite upd_NL_VL in H.
        destruct (upd_prefix T (fun v => upd T v) c dl l nx) as [[l' nx2] e2] eqn:E.
        inversion H; subst. apply Q_NL in Hq. destruct Hq as [Hc Hl].
        apply Q_NL. split; [exact Hc|]. apply D_VL in HD.
        eapply (upd_prefix_pres (fun v => upd T v)); [|exact HD|apply CL_b; exact Hc|exact Hl|exact E].
        rewrite Forall_forall in *. intros x Hx. apply IH; auto.
      + rewrite upd_mismatch in H; [|left; discriminate]. inversion H; subst; exact Hq.
    - destruct ex as [v|id c l|id c d].
      + rewrite upd_mismatch in H; [|right; reflexivity]. inversion H; subst; exact Hq.
      + rewrite upd_mismatch in H; [|left; discriminate]. inversion H; subst; exact Hq.
      + rewrite upd_ND_VD in H.
        destruct (upd_entries T (fun v => upd T v) c dd d nx) as [[d' nx2] e2] eqn:E.
        apply Q_ND in Hq. destruct Hq as [Hc [Hk Hd]]. apply D_VD in HD.
        assert (Hd' : KU d' /\ Forall Qe d').
        { eapply (upd_entries_pres (fun v => upd T v)); [|exact HD|apply CD_b; exact Hc|exact Hk|exact Hd|exact E].
          rewrite Forall_forall in *. intros x Hx. apply IH; auto. }
        destruct Hd' as [Hk' Hd'].
        destruct e2 as [e2|]; inversion H; subst; apply Q_ND; split; auto. split.
        * apply KU_keep; exact Hk'.
        * unfold keep_keys. apply Forall_filter'. exact Hd'.
  Qed.

  (* the same for the dict-level merge used by update() *)
  Lemma upd_entries_pres_all c dd d nx d' nx' e :
    Forall (fun kv : key * val => D (snd kv)) dd -> in_backend T b c = true ->
    KU d -> Forall Qe d ->
    upd_entries T (fun v => upd T v) c dd d nx = (d', nx', e) -> KU d' /\ Forall Qe d'.
  Proof.
    intros HD Hc Hk Hd H.
    eapply (upd_entries_pres (fun v => upd T v)); [|exact HD|exact Hc|exact Hk|exact Hd|exact H].
    rewrite Forall_forall in *. intros x Hx. apply upd_pres_all. apply HD; exact Hx.
  Qed.
End UpdPres.

(* ------------------------------------------------------------------ *)
(* instances: kinds_match, leaves_scalar, node_keys_unique             *)
(* ------------------------------------------------------------------ *)

Theorem from_base_kinds_match T b c v nx :
  in_backend T b c = true -> kinds_match T (fst (from_base T c v nx)) = true.
Proof.
  revert c nx. induction v as [s|l IH|d IH] using val_ind2; intros c nx Hc.
  - reflexivity.
  - destruct (from_base_cases T c (VL l) nx)
      as [[s [E _]]|[[l0 [E [_ R]]]|[[d0 [E _]]|[[l0 [c' [l' [nx' [E [C [M R]]]]]]]|[d0 [c' [d' [nx' [E _]]]]]]]]];
      try discriminate; rewrite R; simpl; [reflexivity|].
    inversion E; subst l0. destruct (child_cls_in_backend _ _ _ _ _ Hc C) as [Hc' Hk].
    rewrite Hk. simpl. apply forallb_Forall'.
    eapply map_st_rel_Forall; [exact M|]. eapply Forall_impl; [|exact IH].
    intros a Ha s. apply Ha. exact Hc'.
  - destruct (from_base_cases T c (VD d) nx)
      as [[s [E _]]|[[l0 [E _]]|[[d0 [E [_ R]]]|[[l0 [c' [l' [nx' [E _]]]]]|[d0 [c' [d' [nx' [E [C [M R]]]]]]]]]]];
      try discriminate; rewrite R; simpl; [reflexivity|].
    inversion E; subst d0. destruct (child_cls_in_backend _ _ _ _ _ Hc C) as [Hc' Hk].
    rewrite Hk. simpl. apply forallb_Forall'.
    eapply map_st_rel_Forall with (Q := fun kn : key * node => kinds_match T (snd kn) = true);
      [exact M|]. eapply Forall_impl; [|exact IH].
    intros [k w] Ha s. rewrite fb_entry_fst. simpl in *. apply Ha. exact Hc'.
Qed.

Lemma wf_val_VL l : wf_val (VL l) = true -> Forall (fun v => wf_val v = true) l.
Proof. simpl. intros H. apply forallb_Forall'. exact H. Qed.

Lemma wf_val_VD d : wf_val (VD d) = true -> Forall (fun kv : key * val => wf_val (snd kv) = true) d.
Proof. simpl. intros H. apply andb_true_iff in H. destruct H as [_ H]. apply forallb_Forall' in H. exact H. Qed.

Section Instances.
  Variables (T : class_table) (b : nat).

  (* --- kinds_match --- *)
  Definition Qk (n : node) : Prop := node_in_backend T b n /\ kinds_match T n = true.
  Definition CkL (c : nat) : Prop :=
    in_backend T b c = true /\ kind_eqb (c_kind (get_cls T c)) KList = true.
  Definition CkD (c : nat) : Prop :=
    in_backend T b c = true /\ kind_eqb (c_kind (get_cls T c)) KDict = true.

  Lemma Qk_NL id c l : Qk (NL id c l) <-> CkL c /\ Forall Qk l.
  Proof.
    unfold Qk, CkL. rewrite nib_NL. simpl. rewrite andb_true_iff, forallb_Forall'.
    rewrite !Forall_forall. split.
    - intros [[H1 H2] [H3 H4]]. split; auto.
    - intros [[H1 H2] H3]. repeat split; auto; intros x Hx; apply H3; exact Hx.
  Qed.

  Lemma Qk_ND id c d : Qk (ND id c d) <-> CkD c /\ True /\ Forall (fun kn : key * node => Qk (snd kn)) d.
  Proof.
    unfold Qk, CkD. rewrite nib_ND. simpl. rewrite andb_true_iff, forallb_Forall'.
    rewrite !Forall_forall. split.
    - intros [[H1 H2] [H3 H4]]. split; auto.
    - intros [[H1 H2] [_ H3]]. repeat split; auto; intros x Hx; apply H3; exact Hx.
  Qed.

  Lemma upd_kinds data n nx n' nx' e :
    node_in_backend T b n -> kinds_match T n = true -> upd T data n nx = (n', nx', e) ->
    kinds_match T n' = true.
  Proof.
    intros Hb Hk H.
    assert (G : Qk n') ; [|exact (proj2 G)].
    eapply (upd_pres_all T b Qk (fun _ => True) CkL CkD (fun _ => True) Qk_NL Qk_ND); try exact H;
      try (split; assumption); auto.
    - intros c [Hc _]; exact Hc.
    - intros c [Hc _]; exact Hc.
    - intros l _. apply Forall_forall. auto.
    - intros d _. apply Forall_forall. auto.
    - intros c nv nx0 Hc _. split; [apply from_base_in_backend; exact Hc|].
      eapply from_base_kinds_match; exact Hc.
  Qed.

  (* --- leaves_scalar --- *)
  Hypothesis HB : backend_has_both T b = true.

  Definition Ql (n : node) : Prop := node_in_backend T b n /\ leaves_scalar n = true.
  Definition Cb (c : nat) : Prop := in_backend T b c = true.

  Lemma Ql_NL id c l : Ql (NL id c l) <-> Cb c /\ Forall Ql l.
  Proof.
    unfold Ql, Cb. rewrite nib_NL. simpl. rewrite forallb_Forall'.
    rewrite !Forall_forall. split.
    - intros [[H1 H2] H3]. split; auto.
    - intros [H1 H3]. repeat split; auto; intros x Hx; apply H3; exact Hx.
  Qed.

  Lemma Ql_ND id c d : Ql (ND id c d) <-> Cb c /\ True /\ Forall (fun kn : key * node => Ql (snd kn)) d.
  Proof.
    unfold Ql, Cb. rewrite nib_ND. simpl. rewrite forallb_Forall'.
    rewrite !Forall_forall. split.
    - intros [[H1 H2] H3]. split; auto.
    - intros [H1 [_ H3]]. repeat split; auto; intros x Hx; apply H3; exact Hx.
  Qed.

  Lemma upd_leaves data n nx n' nx' e :
    node_in_backend T b n -> leaves_scalar n = true -> upd T data n nx = (n', nx', e) ->
    leaves_scalar n' = true.
  Proof.
    intros Hb Hk H.
    assert (G : Ql n') ; [|exact (proj2 G)].
    eapply (upd_pres_all T b Ql (fun _ => True) Cb Cb (fun _ => True) Ql_NL Ql_ND); try exact H;
      try (split; assumption); auto.
    - intros l _. apply Forall_forall. auto.
    - intros d _. apply Forall_forall. auto.
    - intros c nv nx0 Hc _. split; [apply from_base_in_backend; exact Hc|].
      eapply from_base_leaves_scalar; eauto.
  Qed.

  (* --- node_keys_unique --- *)
  Definition Qu (n : node) : Prop := node_in_backend T b n /\ node_keys_unique n = true.
  Definition Dwf (v : val) : Prop := wf_val v = true.
  Definition KUu (d : list (key * node)) : Prop := keys_unique d = true.

  Lemma Qu_NL id c l : Qu (NL id c l) <-> Cb c /\ Forall Qu l.
  Proof.
    unfold Qu, Cb. rewrite nib_NL. simpl. rewrite forallb_Forall'.
    rewrite !Forall_forall. split.
    - intros [[H1 H2] H3]. split; auto.
    - intros [H1 H3]. repeat split; auto; intros x Hx; apply H3; exact Hx.
  Qed.

  Lemma Qu_ND id c d : Qu (ND id c d) <-> Cb c /\ KUu d /\ Forall (fun kn : key * node => Qu (snd kn)) d.
  Proof.
    unfold Qu, Cb, KUu. rewrite nib_ND. simpl. rewrite andb_true_iff, forallb_Forall'.
    rewrite !Forall_forall. split.
    - intros [[H1 H2] [H3 H4]]. repeat split; auto.
    - intros [H1 [H2 H3]]. repeat split; auto; intros x Hx; apply H3; exact Hx.
  Qed.

  Lemma Qu_fb c nv nx : in_backend T b c = true -> Dwf nv -> Qu (fst (from_base T c nv nx)).
  Proof.
    intros Hc Hd. split; [apply from_base_in_backend; exact Hc|].
    rewrite nku_wf, to_base_from_base. exact Hd.
  Qed.

  Lemma upd_keys data n nx n' nx' e :
    node_in_backend T b n -> node_keys_unique n = true -> wf_val data = true ->
    upd T data n nx = (n', nx', e) -> node_keys_unique n' = true.
  Proof.
    intros Hb Hk Hd H.
    assert (G : Qu n') ; [|exact (proj2 G)].
    eapply (upd_pres_all T b Qu Dwf Cb Cb KUu Qu_NL Qu_ND); try exact H;
      try (split; assumption); auto.
    - intros d k n0. apply keys_unique_dict_set.
    - intros d dd. apply keys_unique_keep_keys.
    - exact wf_val_VL.
    - exact wf_val_VD.
    - exact Qu_fb.
  Qed.

  (* --- all structural facts together (for the machine invariant) --- *)
  Definition wfn (n : node) : Prop :=
    node_in_backend T b n /\ kinds_match T n = true /\ leaves_scalar n = true
    /\ node_keys_unique n = true.

  Lemma wfn_NL id c l : wfn (NL id c l) <-> CkL c /\ Forall wfn l.
  Proof.
    unfold wfn, CkL. rewrite nib_NL. simpl. rewrite andb_true_iff, !forallb_Forall'.
    rewrite !Forall_forall. split.
    - intros [[H1 H2] [[H3 H4] [H5 H6]]]. repeat split; auto; apply H2; auto.
    - intros [[H1 H2] H3]. repeat split; auto; intros x Hx; apply H3; exact Hx.
  Qed.

  Lemma wfn_ND id c d :
    wfn (ND id c d) <-> CkD c /\ KUu d /\ Forall (fun kn : key * node => wfn (snd kn)) d.
  Proof.
    unfold wfn, CkD, KUu. rewrite nib_ND. simpl. rewrite !andb_true_iff, !forallb_Forall'.
    rewrite !Forall_forall. split.
    - intros [[H1 H2] [[H3 H4] [H5 [H6 H7]]]]. repeat split; auto; apply H2; auto.
    - intros [[H1 H2] [H3 H4]]. repeat split; auto; intros x Hx; apply H4; exact Hx.
  Qed.

  Lemma wfn_fb c nv nx : in_backend T b c = true -> Dwf nv -> wfn (fst (from_base T c nv nx)).
  Proof.
    intros Hc Hd. split; [apply from_base_in_backend; exact Hc|].
    split; [eapply from_base_kinds_match; exact Hc|].
    split; [eapply from_base_leaves_scalar; eauto|].
    rewrite nku_wf, to_base_from_base. exact Hd.
  Qed.

  Lemma upd_wfn data n nx n' nx' e :
    wfn n -> wf_val data = true -> upd T data n nx = (n', nx', e) -> wfn n'.
  Proof.
    intros Hw Hd H.
    eapply (upd_pres_all T b wfn Dwf CkL CkD KUu wfn_NL wfn_ND); try exact H; auto.
    - intros c [Hc _]; exact Hc.
    - intros c [Hc _]; exact Hc.
    - intros d k n0. apply keys_unique_dict_set.
    - intros d dd. apply keys_unique_keep_keys.
    - exact wf_val_VL.
    - exact wf_val_VD.
    - exact wfn_fb.
  Qed.

  Lemma upd_entries_wfn c dd d nx d' nx' e :
    Forall (fun kv : key * val => wf_val (snd kv) = true) dd -> in_backend T b c = true ->
    keys_unique d = true -> Forall (fun kn : key * node => wfn (snd kn)) d ->
    upd_entries T (fun v => upd T v) c dd d nx = (d', nx', e) ->
    keys_unique d' = true /\ Forall (fun kn : key * node => wfn (snd kn)) d'.
  Proof.
    intros HD Hc Hk Hd H.
    eapply (upd_entries_pres_all T b wfn Dwf CkL CkD KUu wfn_NL wfn_ND); try exact H; auto.
    - intros c0 [Hc0 _]; exact Hc0.
    - intros c0 [Hc0 _]; exact Hc0.
    - intros d0 k n0. apply keys_unique_dict_set.
    - intros d0 dd0. apply keys_unique_keep_keys.
    - exact wf_val_VL.
    - exact wf_val_VD.
    - exact wfn_fb.
  Qed.
End Instances.

Lemma upd_same_head T data n nx n' nx' e :
  upd T data n nx = (n', nx', e) ->
  node_id n' = node_id n /\ node_cls n' = node_cls n /\ node_kind n' = node_kind n.
Proof.
  intros H. destruct n as [v|id c l|id c d], data as [s|dl|dd];
    try (simpl in H; inversion H; subst; repeat split; reflexivity).
  - rewrite upd_NL_VL in H. destruct (upd_prefix _ _ _ _ _ _) as [[l' nx2] e2].
    inversion H; subst. repeat split; reflexivity.
  - rewrite upd_ND_VD in H. destruct (upd_entries _ _ _ _ _ _) as [[d' nx2] [e2|]];
      inversion H; subst; repeat split; reflexivity.
Qed.

(* well-formedness facts preserved by the merge for ANY data (also on error) *)
Theorem upd_wf T b data n nx n' nx' e :
  backend_has_both T b = true -> node_in_backend T b n ->
  upd T data n nx = (n', nx', e) ->
  (kinds_match T n = true -> kinds_match T n' = true)
  /\ (leaves_scalar n = true -> leaves_scalar n' = true)
  /\ (node_keys_unique n = true -> wf_val data = true -> node_keys_unique n' = true)
  /\ node_id n' = node_id n /\ node_cls n' = node_cls n /\ node_kind n' = node_kind n.
Proof.
  intros HB Hn H. split; [|split; [|split]].
  - intros Hk. eapply upd_kinds; eauto.
  - intros Hl. eapply upd_leaves; eauto.
  - intros Hu Hd. eapply upd_keys; eauto.
  - eapply upd_same_head; eauto.
Qed.

Print Assumptions upd_ids.
Print Assumptions upd_wf.
Print Assumptions upd_ids_step.
Print Assumptions upd_entries_ids_step.
Print Assumptions upd_wfn.
Print Assumptions upd_entries_wfn.
