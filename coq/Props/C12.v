(* C12 — Every JSON value is accepted and round-trips exactly.  Property theorems only. *)
From Coq Require Import List Bool NArith ZArith.
From SC Require Import Model.Val Model.Plain Model.Ops Model.Valid Model.Class Model.Tree Model.Machine.
From SC Require Import Proofs.TreeDefs Proofs.TreeBase Proofs.MachineDefs Proofs.MachineRefine Proofs.RoundTrip.
Import ListNotations.

(* every JSON value (any nesting of dicts with dot-free string keys and lists, any scalars: integers of any
   size, exact dyadic floats, strings of arbitrary code points, booleans, null, empty containers and keys)
   passes EVERY validator list, hence every entry point that validates *)
Theorem C12_valid_json_accepted : forall vs v,
  is_json v = true -> no_dots v = true -> validate vs v = None.
Proof. exact valid_json_accepted_l. Qed.
Print Assumptions C12_valid_json_accepted.

(* keys containing a dot are accepted as well by every class that is not of an attribute-access family *)
Theorem C12_dotted_keys_accepted_elsewhere : forall vs v,
  l_no_dots (lang3 vs) = false -> is_json v = true -> validate vs v = None.
Proof. exact valid_json_accepted_nodotfree. Qed.
Print Assumptions C12_dotted_keys_accepted_elsewhere.

(* what is stored is exactly the value (no merging for item assignment): after obj[k] = v at any position p
   the new content holds v itself under k *)
Theorem C12_stored_exactly : forall p k v j r new,
  plain_at p (OD (DSet k v)) j = Some (r, new) -> val_at (p ++ [PKey k]) new = Some v /\ r = Ok vnone.
Proof. exact set_then_at. Qed.
Print Assumptions C12_stored_exactly.

(* conversion in and out is the identity on values: the tree built from v denotes exactly v *)
Theorem C12_conversion_identity : forall T c v nx, to_base (fst (from_base T c v nx)) = v.
Proof. exact to_base_from_base. Qed.
Print Assumptions C12_conversion_identity.

(* a fresh object's read of any position returns a value related by VEq to what is stored there ... *)
Theorem C12_read_back : forall p a b x,
  VEq a b -> val_at p a = Some x -> exists y, val_at p b = Some y /\ VEq x y.
Proof. exact VEq_val_at. Qed.
Print Assumptions C12_read_back.

(* ... and VEq is equality with the same JSON type at every leaf (True, 1 and 1.0 are three different values) *)
Theorem C12_same_type_at_every_leaf : forall a b,
  VEq a b -> wf_val a = true -> wf_val b = true -> veq_strict a b = true.
Proof. exact VEq_veq_strict. Qed.
Print Assumptions C12_same_type_at_every_leaf.

Example C12_types_are_distinguished :
  veq_strict (VS (SBool true)) (VS (SInt 1)) = false /\ veq_strict (VS (SInt 1)) (VS (SFloat (FNum 1 0))) = false
  /\ veq_py (VS (SBool true)) (VS (SInt 1)) = true.
Proof. repeat split. Qed.

(* the whole operation: C01_refines_plain (Proofs.MachineRefine.step_refines_plain) composes these for every
   entry point, every prior state and every class of the generated table *)
Theorem C12_roundtrip_step : forall T s oid hid k v s' r h ob c,
  table_ok T = true -> Inv T s -> res_valid T s ->
  nlookup oid (m_objs s) = Some ob -> nlookup (o_rid ob) (m_res s) = Some c ->
  args_ok (lang_of T (o_cls ob)) (OD (DSet k v)) = true ->
  step T s (MOp oid hid (OD (DSet k v))) = (s', MR r h) ->
  (exists e, r = Err e /\ s' = s) \/
  (exists p ob', nlookup oid (m_objs s') = Some ob'
      /\ nlookup (o_rid ob) (m_res s') = Some (to_base (o_root ob'))
      /\ val_at (p ++ [PKey k]) (to_base (o_root ob')) = Some v).
Proof.
  intros T s oid hid k v s' r h ob c HT HI HR Hob Hc Ha H.
  destruct (step_refines_plain T s oid hid (OD (DSet k v)) s' r h ob c HT HI HR Hob Hc Ha) as
    [[-> [e [-> _]]]|[j [p [new [ob' [_ [Hp [Hob' [Hex [_ [Hw _]]]]]]]]]]]; try exact H.
  - intros v0 od E; discriminate E.
  - apply andb_false_r.
  - left. exists e. split; reflexivity.
  - right. exists p, ob'. split; [exact Hob'|]. split; [apply Hw; reflexivity|].
    rewrite (Hex eq_refl). exact (proj1 (set_then_at p k v j r new Hp)).
Qed.
Print Assumptions C12_roundtrip_step.
