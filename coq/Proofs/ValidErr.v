From Coq Require Import List Bool NArith.
From SC Require Import Model.Val Model.Valid Proofs.TreeBase.
Import ListNotations.

Definition verr (e : err) : Prop := e = EKeyType \/ e = EType \/ e = EInvalidKey.

Lemma first_err_in {A} (g : A -> option err) l e :
  first_err g l = Some e -> exists x, In x l /\ g x = Some e.
Proof.
  induction l as [|x l IH]; cbn; [discriminate|].
  destruct (g x) as [e0|] eqn:E.
  - intros H. injection H as <-. exists x. split; [left; reflexivity|exact E].
  - intros H. destruct (IH H) as [y [Hy Hg]]. exists y. split; [right; exact Hy|exact Hg].
Qed.

Lemma validator_errs n : forall v e, run_validator n v = Some e -> verr e.
Proof.
  intros v. induction v as [s|l IH|d IH] using val_ind2; intros e H; destruct n; cbn in H.
  all: try discriminate.
  all: try (destruct (scalar_json s); [discriminate|injection H as <-; unfold verr; auto]).
  all: try (apply first_err_in in H as [x [Hx Hg]]; rewrite Forall_forall in IH; exact (IH x Hx e Hg)).
  all: apply first_err_in in H as [[k w] [Hx Hg]]; rewrite Forall_forall in IH; specialize (IH (k, w) Hx); cbn [snd] in IH.
  - destruct (key_is_str k); [exact (IH e Hg)|injection Hg as <-; unfold verr; auto].
  - destruct (key_is_str k); [exact (IH e Hg)|injection Hg as <-; unfold verr; auto].
  - destruct (key_is_str k); [|injection Hg as <-; unfold verr; auto].
    destruct (key_has_dot k); [injection Hg as <-; unfold verr; auto|exact (IH e Hg)].
  - destruct (v_json_attr w) as [e1|] eqn:E1; cbn [orelse] in Hg.
    + injection Hg as <-. exact (IH e1 E1).
    + destruct (key_is_str k); [|injection Hg as <-; unfold verr; auto].
      destruct (key_has_dot k); [injection Hg as <-; unfold verr; auto|discriminate].
Qed.

Lemma validate_errs vs v e : validate vs v = Some e -> verr e.
Proof.
  unfold validate. intros H. apply first_err_in in H as [n [_ Hn]]. eapply validator_errs; eassumption.
Qed.
