(* BufferSimAux4.v — flushing: one collection, the whole buffer, capacity changes. *)
From Coq Require Import List ZArith NArith Bool Lia Arith.
From SC Require Import Model.Val Model.Plain Model.Ops Proofs.TreeDefs Proofs.TreeBase Model.Buffer Proofs.BufferDefs.
From SC Require Import Proofs.BufferSimAux1 Proofs.BufferSimAux2 Proofs.BufferSimAux3.
Import ListNotations.
Local Open Scope Z_scope.

Definition blen_ok (blen : val -> Z) : Prop := forall v, 0 <= blen v.

Lemma data_of_set_data s oid v : data_of (set_data s oid v) oid = v.
Proof. unfold data_of, set_data. prj. change (get_obj (upd_heap s _) oid) with (get_obj s oid). rewrite nlookup_nset_same. reflexivity. Qed.

Lemma data_of_set_loc_present s oid l :
  nlookup l (b_heap s) <> None -> data_of (set_loc s oid l) oid = heap_at s l.
Proof.
  intros H. unfold data_of. rewrite get_obj_set_loc, Nat.eqb_refl. cbn [bo_loc bo_kind].
  unfold heap_at. change (b_heap (set_loc s oid l)) with (b_heap s).
  destruct (nlookup l (b_heap s)); [reflexivity|congruence].
Qed.

Record fo_post (strat : strategy) (blen : val -> Z) (s : bstate) (oid : nat) (force : bool) (s' : bstate) : Prop := {
  fo_core : core strat blen s';
  fo_leq : leq strat s s';
  fo_stable : ostable s s';
  fo_cap : b_cap s' = b_cap s;
  fo_stack : b_stack s' = b_stack s;
  fo_bcs : b_bcs s' = b_bcs s;
  fo_size : b_size s' <= b_size s;
  fo_other : forall g, g <> bo_file (get_obj s oid) -> nlookup g (b_buffer s') = nlookup g (b_buffer s);
  fo_own : if negb (is_buffered s oid) || force
           then match nlookup (bo_file (get_obj s oid)) (b_buffer s') with
                | None => True
                | Some e' => strat = Shm /\ force = true /\ e_mod e' = false
                             /\ nlookup (bo_file (get_obj s oid)) (b_buffer s) <> None
                end
           else nlookup (bo_file (get_obj s oid)) (b_buffer s') = nlookup (bo_file (get_obj s oid)) (b_buffer s);
}.

Lemma fo_post_same strat blen s oid force :
  core strat blen s ->
  (negb (is_buffered s oid) || force = true -> nlookup (bo_file (get_obj s oid)) (b_buffer s) = None) ->
  fo_post strat blen s oid force s.
Proof.
  intros C H. constructor; auto using leq_refl, ostable_refl; try lia.
  destruct (negb (is_buffered s oid) || force); [|reflexivity]. rewrite H; auto.
Qed.

Lemma flush_one_spec strat blen s oid force s' x :
  blen_ok blen -> core strat blen s -> known_obj s oid ->
  flush_one strat blen s oid force = (s', x) -> x = None /\ fo_post strat blen s oid force s'.
Proof.
  intros Hb C [o Ho] H. pose proof (known_get _ _ _ Ho) as G.
  pose proof (c_acct _ _ _ C) as [_ N].
  unfold flush_one in H. cbv zeta in H.
  destruct (negb (is_buffered s oid) || force) eqn:Eb.
  - destruct (nlookup (bo_file (get_obj s oid)) (b_buffer s)) as [e|] eqn:He.
    + destruct (c_ent _ _ _ C _ _ He) as [M [d [Hd Hv]]].
      destruct strat.
      * (* Ser *)
        destruct (veq_text (e_val e) (e_hash e)) eqn:Et.
        -- inversion H; subst s' x. clear H. split; [reflexivity|].
           destruct (T_drop Ser blen s _ e d (b_size s - blen (e_val e)) C He Hd) as [C' L'].
           { apply VEq_sym. eapply VEq_trans; [apply veq_text_VEq; exact Et|exact Hv]. }
           { reflexivity. }
           constructor; try reflexivity.
           ++ exact C'.
           ++ exact L'.
           ++ apply ostable_objs; reflexivity.
           ++ change (b_size s - blen (e_val e) <= b_size s). specialize (Hb (e_val e)). lia.
           ++ intros g Hg. unfold del_entry. prj. apply nlookup_nremove_other. exact Hg.
           ++ rewrite Eb. unfold del_entry. prj. rewrite nlookup_nremove_same by exact N. exact I.
        -- rewrite M, opt_nat_eqb_refl in H. cbn [negb] in H. inversion H; subst s' x. clear H.
           split; [reflexivity|].
           set (v := vmerge (data_of s oid) (e_val e)).
           assert (Wv : VEq v (e_val e) /\ wf_val v = true).
           { apply vmerge_VEq; [apply data_of_wf; exact (c_wf _ _ _ C)|].
             destruct (c_wf _ _ _ C) as (_ & _ & W3). apply (W3 _ _ He). }
           destruct Wv as [Vv Wv].
           destruct (T_heap Ser blen s (bo_loc (get_obj s oid)) v C Wv) as [C1 L1]; [discriminate|].
           change (upd_heap s (nset (bo_loc (get_obj s oid)) v (b_heap s))) with (set_data s oid v) in C1, L1.
           change (update_root s oid (Some (e_val e))) with (set_data s oid v).
           rewrite data_of_set_data.
           destruct (T_write_drop Ser blen (set_data s oid v) (bo_file (get_obj s oid)) e v
                       (b_size s - blen (e_val e)) C1 He Wv Vv eq_refl) as [C2 L2].
           constructor; try reflexivity.
           ++ exact C2.
           ++ eapply leq_trans; [exact L1|exact L2].
           ++ apply ostable_objs; reflexivity.
           ++ change (b_size s - blen (e_val e) <= b_size s). specialize (Hb (e_val e)). lia.
           ++ intros g Hg. unfold del_entry. prj. apply nlookup_nremove_other. exact Hg.
           ++ rewrite Eb. unfold del_entry. prj.
              change (b_buffer (write_disk (set_data s oid v) (bo_file (get_obj s oid)) v)) with (b_buffer s).
              rewrite nlookup_nremove_same by exact N. exact I.
      * (* Shm *)
        destruct (c_locs _ _ _ C eq_refl) as [own [L1 L2]].
        destruct (L2 _ _ He) as (P1 & P2 & P3).
        rewrite G in He, Hd, M, P1.
        destruct (e_mod e) eqn:Em.
        -- rewrite M, G, opt_nat_eqb_refl in H. cbn [negb] in H.
           rewrite (data_of_set_loc_present s oid (e_loc e) P3) in H.
           pose proof (T_set_loc Shm blen s oid o e C Ho He) as C1.
           set (s1 := set_loc s oid (e_loc e)) in *.
           assert (He1 : nlookup (bo_file o) (b_buffer s1) = Some e) by exact He.
           change (heap_at s (e_loc e)) with (heap_at s1 (e_loc e)) in H.
           assert (St : ostable s s1) by apply ostable_set_loc.
           destruct force.
           ++ inversion H; subst s' x. clear H. split; [reflexivity|].
              destruct (T_write_keep blen s1 (bo_file o) e (b_size s1 - 1)
                          (stamp (write_disk s1 (bo_file o) (heap_at s1 (e_loc e))) (bo_file o))
                          C1 He1 Em eq_refl eq_refl) as [C2 L2'].
              constructor; try reflexivity.
              ** exact C2.
              ** eapply leq_trans; [apply (leq_ext Shm s s1); reflexivity|exact L2'].
              ** eapply ostable_trans; [exact St|apply ostable_objs; reflexivity].
              ** change (b_size s - 1 <= b_size s). lia.
              ** rewrite G. intros g Hg. unfold set_entry. prj.
                 change (b_buffer (write_disk s1 (bo_file o) (heap_at s1 (e_loc e)))) with (b_buffer s).
                 apply nlookup_nset_other. exact Hg.
              ** rewrite Eb, G. unfold set_entry. prj. rewrite nlookup_nset_same. cbn [e_mod]. rewrite He. repeat split; discriminate.
           ++ inversion H; subst s' x. clear H. split; [reflexivity|].
              destruct (T_write_drop Shm blen s1 (bo_file o) e (heap_at s1 (e_loc e)) (b_size s1 - 1) C1 He1) as [C2 L2'].
              { apply heap_at_wf. exact (c_wf _ _ _ C1). }
              { apply VEq_refl. }
              { unfold wt. rewrite Em. reflexivity. }
              constructor; try reflexivity.
              ** exact C2.
              ** eapply leq_trans; [apply (leq_ext Shm s s1); reflexivity|exact L2'].
              ** eapply ostable_trans; [exact St|apply ostable_objs; reflexivity].
              ** change (b_size s - 1 <= b_size s). lia.
              ** rewrite G. intros g Hg. unfold del_entry. prj.
                 change (b_buffer (write_disk s1 (bo_file o) (heap_at s1 (e_loc e)))) with (b_buffer s).
                 apply nlookup_nremove_other. exact Hg.
              ** rewrite Eb, G. unfold del_entry. prj.
                 change (b_buffer (write_disk s1 (bo_file o) (heap_at s1 (e_loc e)))) with (b_buffer s).
                 rewrite nlookup_nremove_same by exact N. exact I.
        -- rewrite G in H. cbv iota in H. destruct force.
           ++ inversion H; subst s' x. clear H. split; [reflexivity|].
              set (e' := {| e_val := e_val e; e_loc := e_loc e; e_hash := e_hash e; e_meta := e_meta e; e_mod := false |}).
              assert (C2 : core Shm blen (upd_size (set_entry s (bo_file o) e') (b_size s))).
              { apply T_set; try (destruct (c_wf _ _ _ C) as (_ & _ & W3); apply (W3 _ _ He)); [exact C| | |].
                - rewrite He. unfold wopt, wt, e'. cbn [e_mod]. rewrite Em. lia.
                - split; [unfold e'; cbn [e_meta]; exact M|]. exists d. split; [exact Hd|]. intros _. apply Hv. reflexivity.
                - intros _. split; [right; exists e; split; [exact He|reflexivity]|exact P3]. }
              constructor; try reflexivity.
              ** exact C2.
              ** intros g. change (set_entry s (bo_file o) e') with (upd_size (set_entry s (bo_file o) e') (b_size s)).
                 rewrite logical_set. destruct (Nat.eqb g (bo_file o)) eqn:Eg; [|apply lrel_refl].
                 apply Nat.eqb_eq in Eg. subst g. unfold logical. rewrite He. apply lrel_refl.
              ** apply ostable_objs; reflexivity.
              ** rewrite G. intros g Hg. unfold set_entry. prj. apply nlookup_nset_other. exact Hg.
              ** rewrite Eb, G. unfold set_entry. prj. rewrite nlookup_nset_same. cbn [e_mod]. rewrite He. repeat split; discriminate.
           ++ inversion H; subst s' x. clear H. split; [reflexivity|].
              destruct (T_drop Shm blen s _ e d (b_size s) C He Hd) as [C' L'].
              { apply VEq_sym. apply Hv. reflexivity. }
              { unfold wt. rewrite Em. lia. }
              constructor; try reflexivity.
              ** exact C'.
              ** exact L'.
              ** apply ostable_objs; reflexivity.
              ** rewrite G. intros g Hg. unfold del_entry. prj. apply nlookup_nremove_other. exact Hg.
              ** rewrite Eb, G. unfold del_entry. prj. rewrite nlookup_nremove_same by exact N. exact I.
    + (* no entry *)
      assert (Same : x = None /\ fo_post strat blen s oid force s -> s' = s -> x = None /\ fo_post strat blen s oid force s')
        by (intros ? ->; assumption).
      assert (PS : fo_post strat blen s oid force s) by (apply fo_post_same; auto).
      destruct strat.
      * inversion H; subst. auto.
      * destruct force; [inversion H; subst; auto|].
        inversion H; subst s' x. clear H. split; [reflexivity|].
        set (v := match read_disk s (bo_file (get_obj s oid)) with Some d => d | None => empty_of (bo_kind (get_obj s oid)) end).
        assert (Wv : wf_val v = true).
        { subst v. destruct (read_disk s (bo_file (get_obj s oid))) eqn:Ed; [|apply empty_of_wf].
          eapply read_disk_wf; [exact (c_wf _ _ _ C)|exact Ed]. }
        destruct (T_heap Shm blen s (bo_loc (get_obj s oid)) v C Wv) as [C1 L1].
        { intros _ g e Hg El. rewrite G in El. pose proof (no_alias s oid o g e (c_locs _ _ _ C) Ho Hg El) as Hf.
          rewrite G in He. congruence. }
        change (upd_heap s (nset (bo_loc (get_obj s oid)) v (b_heap s))) with (set_data s oid v) in C1, L1.
        constructor; try reflexivity.
        -- exact C1.
        -- exact L1.
        -- apply ostable_objs; reflexivity.
        -- rewrite Eb. change (b_buffer (set_data s oid v)) with (b_buffer s). rewrite He. exact I.
  - (* still buffered by the class-wide context *)
    destruct strat.
    + inversion H; subst. split; [reflexivity|]. apply fo_post_same; [exact C|]. rewrite Eb. discriminate.
    + inversion H; subst s' x. clear H. split; [reflexivity|].
      destruct (T_copy blen s oid o C Ho) as [C1 L1].
      constructor; try reflexivity.
      * exact C1.
      * exact L1.
      * unfold private_copy. eapply ostable_trans; [|apply ostable_set_loc]. apply ostable_objs; reflexivity.
      * rewrite Eb. reflexivity.
Qed.

(* ------------------------------------------------------------------ *)
(* the flush loop                                                      *)
(* ------------------------------------------------------------------ *)
Definition holders (strat : strategy) (todo remaining : list nat) (s : bstate) (force : bool) : Prop :=
  forall f e, nlookup f (b_buffer s) = Some e ->
    exists oid, bo_file (get_obj s oid) = f /\
      ((In oid todo /\ (force = true -> is_buffered s oid = true))
       \/ (In oid remaining /\ is_buffered s oid = true /\ (force = true -> strat = Shm /\ e_mod e = false))).

Lemma flush_loop_spec strat blen (Hb : blen_ok blen) todo : forall s force remaining issues s' rem' iss',
  core strat blen s -> holders strat todo remaining s force ->
  (forall x, In x todo \/ In x remaining -> known_obj s x) ->
  flush_loop strat blen todo s force remaining issues = (s', rem', iss') ->
  iss' = issues /\ core strat blen s' /\ leq strat s s' /\ ostable s s'
  /\ b_cap s' = b_cap s /\ b_stack s' = b_stack s /\ b_bcs s' = b_bcs s /\ b_size s' <= b_size s
  /\ holders strat [] rem' s' force /\ (forall x, In x rem' -> known_obj s' x).
Proof.
  induction todo as [|oid todo IH]; intros s force remaining issues s' rem' iss' C HH HK H; cbn [flush_loop] in H.
  - inversion H; subst. split; [reflexivity|]. split; [exact C|]. split; [apply leq_refl|]. split; [apply ostable_refl|].
    split; [reflexivity|]. split; [reflexivity|]. split; [reflexivity|]. split; [lia|].
    split; [exact HH|]. intros x Hx. apply HK. right. exact Hx.
  - destruct (is_buffered s oid && negb force) eqn:Ec.
    + apply andb_true_iff in Ec. destruct Ec as [Eb Ef]. apply negb_true_iff in Ef. subst force.
      apply (IH s false (remaining ++ [oid]) issues s' rem' iss' C); [| |exact H].
      * intros f e He. destruct (HH f e He) as [w [Hw [[Hin Hf]|[Hin [Hbw Hf]]]]]; exists w; split; try exact Hw.
        -- destruct Hin as [<-|Hin].
           ++ right. split; [apply in_or_app; right; left; reflexivity|]. split; [exact Eb|discriminate].
           ++ left. split; [exact Hin|discriminate].
        -- right. split; [apply in_or_app; left; exact Hin|]. split; [exact Hbw|discriminate].
      * intros x [Hx|Hx]; [apply HK; left; right; exact Hx|].
        apply in_app_or in Hx. destruct Hx as [Hx|[<-|[]]]; apply HK; [right; exact Hx|left; left; reflexivity].
    + set (remaining' := match strat with Shm => if force then remaining ++ [oid] else remaining | Ser => remaining end) in *.
      assert (Hsub : forall x, In x remaining -> In x remaining').
      { intros x Hx. subst remaining'. destruct strat; [exact Hx|]. destruct force; [apply in_or_app; left; exact Hx|exact Hx]. }
      destruct (flush_one strat blen s oid force) as [s1 x] eqn:E1.
      destruct (flush_one_spec strat blen s oid force s1 x Hb C (HK oid (or_introl (or_introl eq_refl))) E1) as [-> P].
      assert (Econd : negb (is_buffered s oid) || force = true).
      { destruct (is_buffered s oid), force; simpl in *; congruence. }
      pose proof (fo_own _ _ _ _ _ _ P) as PO. rewrite Econd in PO.
      pose proof (fo_stable _ _ _ _ _ _ P) as St.
      destruct (IH s1 force remaining' issues s' rem' iss' (fo_core _ _ _ _ _ _ P)) as (I1 & I2 & I3 & I4 & I5 & I6 & I7 & I8 & I9 & I10).
      * intros g e1 He1. destruct (Nat.eq_dec g (bo_file (get_obj s oid))) as [->|Hne].
        -- rewrite He1 in PO. destruct PO as (PS & PF & PM & PE). subst force.
           destruct (nlookup (bo_file (get_obj s oid)) (b_buffer s)) as [e|] eqn:He; [|congruence].
           destruct (HH _ _ He) as [w [Hw [[Hin Hf]|[Hin [Hbw Hf]]]]]; exists w;
             (split; [rewrite (ostable_file _ _ w St); exact Hw|]).
           ++ specialize (Hf eq_refl). destruct Hin as [<-|Hin].
              ** right. split; [subst remaining' strat; apply in_or_app; right; left; reflexivity|].
                 split; [rewrite (ostable_buffered _ _ oid St); exact Hf|]. intros _. split; [exact PS|exact PM].
              ** left. split; [exact Hin|]. intros _. rewrite (ostable_buffered _ _ w St). exact Hf.
           ++ right. split; [apply Hsub; exact Hin|]. split; [rewrite (ostable_buffered _ _ w St); exact Hbw|].
              intros _. split; [exact PS|exact PM].
        -- rewrite (fo_other _ _ _ _ _ _ P g Hne) in He1.
           destruct (HH _ _ He1) as [w [Hw [[Hin Hf]|[Hin [Hbw Hf]]]]]; exists w;
             (split; [rewrite (ostable_file _ _ w St); exact Hw|]).
           ++ destruct Hin as [<-|Hin]; [congruence|]. left. split; [exact Hin|].
              intros Ef. rewrite (ostable_buffered _ _ w St). apply Hf. exact Ef.
           ++ right. split; [apply Hsub; exact Hin|]. split; [rewrite (ostable_buffered _ _ w St); exact Hbw|exact Hf].
      * intros y Hy. apply (ostable_known _ _ y St). destruct Hy as [Hy|Hy]; [apply HK; left; right; exact Hy|].
        subst remaining'. destruct strat; [apply HK; right; exact Hy|]. destruct force; [|apply HK; right; exact Hy].
        apply in_app_or in Hy. destruct Hy as [Hy|[<-|[]]]; apply HK; [right; exact Hy|left; left; reflexivity].
      * exact H.
      * split; [exact I1|]. split; [exact I2|]. split; [eapply leq_trans; [exact (fo_leq _ _ _ _ _ _ P)|exact I3]|].
        split; [eapply ostable_trans; [exact St|exact I4]|].
        split; [rewrite I5; exact (fo_cap _ _ _ _ _ _ P)|]. split; [rewrite I6; exact (fo_stack _ _ _ _ _ _ P)|].
        split; [rewrite I7; exact (fo_bcs _ _ _ _ _ _ P)|].
        split; [pose proof (fo_size _ _ _ _ _ _ P); lia|]. split; [exact I9|exact I10].
Qed.

Definition held (s : bstate) (force : bool) : Prop :=
  forall f e, nlookup f (b_buffer s) = Some e ->
    exists oid, In oid (b_bcs s) /\ bo_file (get_obj s oid) = f /\ (force = true -> is_buffered s oid = true).

Lemma reg_inv_held s force : reg_inv s -> held s force.
Proof. intros R f e He. destruct (R f e He) as (oid & A & B & D). exists oid. auto. Qed.

Lemma flush_buffer_spec strat blen s force s' x :
  blen_ok blen -> core strat blen s -> held s force ->
  flush_buffer strat blen s force = (s', x) ->
  x = None /\ core strat blen s' /\ reg_inv s' /\ leq strat s s' /\ ostable s s'
  /\ b_cap s' = b_cap s /\ b_stack s' = b_stack s /\ b_size s' <= b_size s /\ (force = true -> b_size s' = 0).
Proof.
  intros Hb C HH H. unfold flush_buffer in H.
  destruct (flush_loop strat blen (rev (b_bcs s)) (upd_bcs s []) force [] []) as [[s1 remaining] issues] eqn:E.
  assert (C0 : core strat blen (upd_bcs s [])) by (apply T_bcs; [exact C|intros ? []]).
  assert (HHo : holders strat (rev (b_bcs s)) [] (upd_bcs s []) force).
  { intros f e He. destruct (HH f e He) as (oid & A & B & D). exists oid. split; [exact B|].
    left. split; [apply -> in_rev; exact A|exact D]. }
  assert (HKo : forall y, In y (rev (b_bcs s)) \/ In y [] -> known_obj (upd_bcs s []) y).
  { intros y [Hy|[]]. apply in_rev in Hy. apply (c_known _ _ _ C). exact Hy. }
  destruct (flush_loop_spec strat blen Hb _ _ _ _ _ _ _ _ C0 HHo HKo E) as (I1 & I2 & I3 & I4 & I5 & I6 & I7 & I8 & I9 & I10).
  - subst issues. inversion H; subst s' x. clear H. split; [reflexivity|].
    assert (C2 : core strat blen (upd_bcs s1 remaining)) by (apply T_bcs; [exact I2|exact I10]).
    split; [exact C2|]. split.
    { intros f e He. destruct (I9 f e He) as [w [Hw [[[] _]|[Hin [Hbw _]]]]]. exists w. auto. }
    split; [eapply leq_trans; [exact I3|apply leq_ext; reflexivity]|].
    split; [eapply ostable_trans; [|eapply ostable_trans; [exact I4|]]; apply ostable_objs; reflexivity|].
    split; [exact I5|]. split; [exact I6|]. split; [exact I8|].
    intros ->. destruct (c_acct _ _ _ C2) as [A1 A2]. rewrite A1, expected_size_esum.
    apply esum_zero; [|exact A2]. intros f e He.
    destruct (I9 f e He) as [w [Hw [[[] _]|[Hin [Hbw Hf]]]]]. destruct (Hf eq_refl) as [-> Hm].
    unfold wt. rewrite Hm. reflexivity.
Qed.

Lemma coherent_strong_intro strat blen s : core strat blen s -> reg_inv s -> b_size s <= b_cap s -> coherent_strong strat blen s.
Proof. unfold coherent_strong. auto. Qed.

Lemma check_capacity_spec strat blen s s' x :
  blen_ok blen -> core strat blen s -> reg_inv s -> check_capacity strat blen s = (s', x) ->
  x = None /\ coherent_strong strat blen s' /\ leq strat s s' /\ ostable s s'
  /\ b_cap s' = b_cap s /\ b_stack s' = b_stack s.
Proof.
  intros Hb C R H. unfold check_capacity in H. destruct (b_cap s <? b_size s) eqn:E.
  - destruct (flush_buffer_spec strat blen (note_forced s) true s' x Hb (T_note_forced _ _ _ C) (reg_inv_held _ true R) H)
      as (I1 & I2 & I3 & I4 & I5 & I6 & I7 & I8 & I9).
    split; [exact I1|]. split.
    + apply coherent_strong_intro; [exact I2|exact I3|]. rewrite (I9 eq_refl), I6.
      destruct (c_stack _ _ _ C) as [A _]. exact A.
    + split; [eapply leq_trans; [apply (leq_ext strat s (note_forced s)); reflexivity|exact I4]|].
      split; [eapply ostable_trans; [|exact I5]; apply ostable_objs; reflexivity|]. split; [exact I6|exact I7].
  - inversion H; subst. split; [reflexivity|]. apply Z.ltb_ge in E.
    split; [apply coherent_strong_intro; auto|]. split; [apply leq_refl|]. split; [apply ostable_refl|]. auto.
Qed.

Lemma set_capacity_spec strat blen s n s' x :
  blen_ok blen -> core strat blen s -> reg_inv s -> b_size s <= b_cap s -> 0 <= n ->
  set_capacity strat blen s n = (s', x) ->
  x = None /\ coherent_strong strat blen s' /\ leq strat s s' /\ ostable s s' /\ b_stack s' = b_stack s.
Proof.
  intros Hb C R _ Hn H. unfold set_capacity in H.
  pose proof (T_cap _ _ _ n C Hn) as C1.
  change (b_size (upd_cap s n)) with (b_size s) in H.
  destruct (n <? b_size s) eqn:E.
  - destruct (flush_buffer_spec strat blen (note_forced (upd_cap s n)) true s' x Hb (T_note_forced _ _ _ C1)
                (reg_inv_held _ true R) H)
      as (I1 & I2 & I3 & I4 & I5 & I6 & I7 & I8 & I9).
    split; [exact I1|]. split.
    + apply coherent_strong_intro; [exact I2|exact I3|]. rewrite (I9 eq_refl), I6. exact Hn.
    + split; [eapply leq_trans; [apply (leq_ext strat s (note_forced (upd_cap s n))); reflexivity|exact I4]|].
      split; [eapply ostable_trans; [|exact I5]; apply ostable_objs; reflexivity|]. exact I7.
  - inversion H; subst. split; [reflexivity|]. apply Z.ltb_ge in E.
    split; [apply coherent_strong_intro; auto|].
    split; [apply leq_ext; reflexivity|]. split; [apply ostable_objs; reflexivity|reflexivity].
Qed.
