(* placeholder: being written *)
