(* BufferSimAux6.v — loading and saving through one object. *)
From Coq Require Import List ZArith NArith Bool Lia Arith.
From SC Require Import Model.Val Model.Plain Model.Ops Proofs.TreeDefs Proofs.TreeBase Model.Buffer Proofs.BufferDefs.
From SC Require Import Proofs.BufferSimAux1 Proofs.BufferSimAux2 Proofs.BufferSimAux3 Proofs.BufferSimAux4.
Import ListNotations.
Local Open Scope Z_scope.

Lemma register_eq s oid : register s oid = upd_bcs s (b_bcs (register s oid)).
Proof. unfold register. destruct (nmem oid (b_bcs s)); [destruct s; reflexivity|reflexivity]. Qed.

Lemma nset_nset {A} k (v v0 : A) l : nset k v (nset k v0 l) = nset k v l.
Proof.
  induction l as [|[k0 a] l IH]; simpl.
  - rewrite Nat.eqb_refl. reflexivity.
  - destruct (Nat.eqb k k0) eqn:E; simpl.
    + rewrite Nat.eqb_refl. reflexivity.
    + rewrite E, IH. reflexivity.
Qed.

Lemma init_entry_eq strat blen s oid m :
  init_entry strat blen s oid m =
  upd_size (set_entry s (bo_file (get_obj s oid))
              {| e_val := data_of s oid; e_loc := bo_loc (get_obj s oid); e_hash := data_of s oid;
                 e_meta := stamp s (bo_file (get_obj s oid)); e_mod := m |})
    (match strat with Ser => b_size s + blen (data_of s oid) | Shm => b_size s end).
Proof. unfold init_entry. destruct strat; reflexivity. Qed.

(* the registered-holder invariant after an entry for the file of a buffered object was touched *)
Lemma reg_inv_after s s1 oid :
  reg_inv s -> ostable s s1 -> (forall x, In x (b_bcs s) -> In x (b_bcs s1)) -> In oid (b_bcs s1) ->
  is_buffered s oid = true ->
  (forall g e, nlookup g (b_buffer s1) = Some e ->
     g = bo_file (get_obj s oid) \/ exists e0, nlookup g (b_buffer s) = Some e0) ->
  reg_inv s1.
Proof.
  intros R St Hin Ho Hb Hbuf g e He. destruct (Hbuf g e He) as [->|[e0 He0]].
  - exists oid. split; [exact Ho|]. split; [apply (ostable_file _ _ oid St)|].
    rewrite (ostable_buffered _ _ oid St). exact Hb.
  - destruct (R g e0 He0) as (w & A & B & D). exists w. split; [apply Hin; exact A|].
    split; [rewrite (ostable_file _ _ w St); exact B|]. rewrite (ostable_buffered _ _ w St). exact D.
Qed.

(* Shm: writing the container of a modified entry *)
Lemma T_heap_mod blen s l v f :
  core Shm blen s -> wf_val v = true ->
  (forall g e, nlookup g (b_buffer s) = Some e -> e_loc e = l -> g = f /\ e_mod e = true) ->
  core Shm blen (upd_heap s (nset l v (b_heap s))) /\ leq_except Shm f s (upd_heap s (nset l v (b_heap s))).
Proof.
  intros C Wv NA. split.
  - constructor; try (frame C).
    + destruct (c_wf _ _ _ C) as (W1 & W2 & W3). split; [exact W1|]. split; [|exact W3].
      prj. intros l' v'. rewrite nlookup_nset. destruct (Nat.eqb l' l); [intros E; inversion E; subst; exact Wv|apply W2].
    + intros g e He. prj. destruct (c_ent _ _ _ C g e He) as [M [d [Hd Hv]]].
      split; [exact M|]. exists d. split; [exact Hd|]. cbn beta iota.
      rewrite heap_at_nset. destruct (Nat.eqb (e_loc e) l) eqn:El; [|exact Hv].
      apply Nat.eqb_eq in El. destruct (NA g e He El) as [_ Hm]. rewrite Hm. discriminate.
    + intros E. destruct (c_locs _ _ _ C E) as [own [L1 L2]]. exists own. split; [exact L1|].
      prj. intros g e He. destruct (L2 g e He) as (A & B & D). split; [exact A|]. split; [exact B|].
      rewrite nlookup_nset. destruct (Nat.eqb (e_loc e) l); [discriminate|exact D].
  - intros g Hg. unfold logical. prj. destruct (nlookup g (b_buffer s)) as [e|] eqn:He; [|apply lrel_refl].
    unfold entry_content. rewrite heap_at_nset. destruct (Nat.eqb (e_loc e) l) eqn:El; [|apply lrel_refl].
    apply Nat.eqb_eq in El. destruct (NA g e He El) as [Hf _]. contradiction.
Qed.

Lemma uniform_no_entry s oid o :
  nlookup oid (b_objs s) = Some o -> uniform_for s oid -> is_buffered s oid = false ->
  nlookup (bo_file o) (b_buffer s) = None.
Proof.
  intros Ho [U|U] Hb; [congruence|]. rewrite (known_get _ _ _ Ho) in U. exact U.
Qed.

(* no buffer entry of another file shares the container of [oid] *)
Lemma not_shared strat blen s oid o :
  core strat blen s -> nlookup oid (b_objs s) = Some o -> nlookup (bo_file o) (b_buffer s) = None ->
  strat = Shm -> forall g e, nlookup g (b_buffer s) = Some e -> e_loc e <> bo_loc o.
Proof.
  intros C Ho Hn -> g e He El. pose proof (no_alias s oid o g e (c_locs _ _ _ C) Ho He El). congruence.
Qed.

(* ------------------------------------------------------------------ *)
(* _load_from_buffer of a buffered object                              *)
(* ------------------------------------------------------------------ *)
Lemma load_base_spec strat blen s oid o c :
  core strat blen s -> reg_inv s -> nlookup oid (b_objs s) = Some o -> is_buffered s oid = true ->
  logical strat s (bo_file o) = Some c ->
  let s0 := load_from_buffer_base strat blen s oid in
  core strat blen s0 /\ reg_inv s0 /\ leq strat s s0 /\ b_objs s0 = b_objs s /\ b_ctx s0 = b_ctx s
  /\ b_cap s0 = b_cap s /\ b_stack s0 = b_stack s /\ (strat = Shm -> b_size s0 = b_size s)
  /\ exists e1, nlookup (bo_file o) (b_buffer s0) = Some e1 /\ VEq (entry_content strat s0 e1) c.
Proof.
  intros C R Ho Hbuf Hc. pose proof (known_get _ _ _ Ho) as G.
  unfold load_from_buffer_base. rewrite G. unfold logical in Hc.
  destruct (nlookup (bo_file o) (b_buffer s)) as [e|] eqn:He.
  - (* already in the buffer *)
    rewrite register_eq. set (l' := b_bcs (register s oid)).
    assert (Hl : forall x, In x l' -> known_obj s x).
    { intros x Hx. apply In_register_inv in Hx. destruct Hx as [->|Hx]; [exists o; exact Ho|apply (c_known _ _ _ C); exact Hx]. }
    cbv zeta. split; [apply T_bcs; assumption|]. split.
    { intros g e0 He0. destruct (R g e0 He0) as (w & A & B & D). exists w. split; [|split; [exact B|exact D]].
      apply (In_register_old s oid). exact A. }
    split; [apply leq_ext; reflexivity|]. do 4 (split; [reflexivity|]). split; [reflexivity|].
    exists e. split; [exact He|]. inversion Hc; subst. apply VEq_refl.
  - (* read from disk *)
    cbn [update_root]. rewrite Hc.
    set (v := vmerge (data_of s oid) c).
    assert (Wc : wf_val c = true) by (eapply read_disk_wf; [exact (c_wf _ _ _ C)|exact Hc]).
    destruct (vmerge_VEq (data_of s oid) c (data_of_wf s oid (c_wf _ _ _ C)) Wc) as [Vv Wv]. fold v in Vv, Wv.
    destruct (T_heap strat blen s (bo_loc (get_obj s oid)) v C Wv) as [C1 L1].
    { rewrite G. eapply not_shared; eauto. }
    change (upd_heap s (nset (bo_loc (get_obj s oid)) v (b_heap s))) with (set_data s oid v) in C1, L1.
    change (update_root s oid (Some c)) with (set_data s oid v).
    set (sa := set_data s oid v) in *.
    rewrite init_entry_eq. change (get_obj sa oid) with (get_obj s oid). rewrite G.
    assert (Hda : data_of sa oid = v) by apply data_of_set_data. rewrite Hda.
    set (e0 := {| e_val := v; e_loc := bo_loc o; e_hash := v; e_meta := stamp sa (bo_file o); e_mod := false |}).
    set (sz := match strat with Ser => b_size sa + blen v | Shm => b_size sa end).
    assert (Hea : nlookup (bo_file o) (b_buffer sa) = None) by exact He.
    assert (C2 : core strat blen (upd_size (set_entry sa (bo_file o) e0) sz)).
    { apply T_set; try exact Wv; [exact C1| | |].
      - rewrite Hea. subst sz. unfold wopt, wt, e0. destruct strat; cbn [e_val e_mod]; lia.
      - split; [reflexivity|]. exists c. split; [exact Hc|]. destruct strat; [exact Vv|].
        intros _. cbn [e_loc]. unfold sa, set_data. rewrite heap_at_nset, G, Nat.eqb_refl. exact Vv.
      - intros _. split.
        + left. exists oid, o. split; [exact Ho|]. split; reflexivity.
        + cbn [e_loc]. unfold sa, set_data. prj. rewrite G, nlookup_nset_same. discriminate. }
    set (sb := upd_size (set_entry sa (bo_file o) e0) sz) in *.
    rewrite register_eq. set (l' := b_bcs (register sb oid)).
    assert (Hl : forall x, In x l' -> known_obj sb x).
    { intros x Hx. apply In_register_inv in Hx. destruct Hx as [->|Hx]; [exists o; exact Ho|apply (c_known _ _ _ C); exact Hx]. }
    cbv zeta. split; [apply T_bcs; assumption|]. split.
    { apply (reg_inv_after s (upd_bcs sb l') oid R).
      - apply ostable_objs; reflexivity.
      - intros x Hx. apply (In_register_old sb oid). exact Hx.
      - apply In_register.
      - exact Hbuf.
      - intros g e. unfold sb, set_entry. prj. rewrite nlookup_nset. rewrite G.
        destruct (Nat.eqb g (bo_file o)) eqn:Eg; [apply Nat.eqb_eq in Eg; auto|]. intros Hg. right. exists e. exact Hg. }
    assert (Lf : entry_content strat sb e0 = v).
    { unfold entry_content. destruct strat; [reflexivity|].
      change (heap_at sa (bo_loc o) = v).
      unfold sa, set_data. rewrite heap_at_nset, G, Nat.eqb_refl. reflexivity. }
    split.
    { eapply leq_trans; [exact L1|]. intros g.
      change (logical strat (upd_bcs sb l') g) with (logical strat sb g). unfold sb at 1. rewrite logical_set.
      destruct (Nat.eqb g (bo_file o)) eqn:Eg; [|apply lrel_refl].
      apply Nat.eqb_eq in Eg. subst g. unfold logical. rewrite Hea.
      change (read_disk sa (bo_file o)) with (read_disk s (bo_file o)). rewrite Hc.
      change (entry_content strat sa e0) with (entry_content strat sb e0). rewrite Lf. exact Vv. }
    do 4 (split; [reflexivity|]). split; [intros ->; reflexivity|].
    exists e0. split.
    + unfold sb, set_entry. prj. apply nlookup_nset_same.
    + change (entry_content strat (upd_bcs sb l') e0) with (entry_content strat sb e0). rewrite Lf. exact Vv.
Qed.

(* ------------------------------------------------------------------ *)
(* _load                                                               *)
(* ------------------------------------------------------------------ *)
Lemma load_spec strat blen (Hb : blen_ok blen) s oid o s1 x c :
  coherent_strong strat blen s -> nlookup oid (b_objs s) = Some o -> uniform_for s oid ->
  logical strat s (bo_file o) = Some c ->
  load strat blen s oid = (s1, x) ->
  x = None /\ coherent_strong strat blen s1 /\ leq strat s s1 /\ ostable s s1
  /\ VEq (data_of s1 oid) c /\ uniform_for s1 oid.
Proof.
  intros (C & R & Hs) Ho U Hc H. pose proof (known_get _ _ _ Ho) as G.
  unfold load in H. rewrite G in H. destruct (is_buffered s oid) eqn:Ebuf.
  - destruct (load_base_spec strat blen s oid o c C R Ho Ebuf Hc) as (C0 & R0 & L0 & O0 & X0 & Cap0 & St0 & Sz0 & e1 & He1 & Ve1).
    set (s0 := load_from_buffer_base strat blen s oid) in *.
    assert (Os0 : ostable s s0) by (apply ostable_objs; assumption).
    rewrite He1 in H. destruct strat.
    + (* Ser *)
      destruct (check_capacity Ser blen s0) as [s2 x2] eqn:E2.
      destruct (check_capacity_spec Ser blen s0 s2 x2 Hb C0 R0 E2) as (-> & (C2 & R2 & Sz2) & L2 & O2 & _).
      inversion H; subst s1 x. clear H. split; [reflexivity|].
      set (v := vmerge (data_of s2 oid) (e_val e1)).
      assert (We : wf_val (e_val e1) = true).
      { destruct (c_wf _ _ _ C0) as (_ & _ & W3). apply (W3 _ _ He1). }
      destruct (vmerge_VEq (data_of s2 oid) (e_val e1) (data_of_wf s2 oid (c_wf _ _ _ C2)) We) as [Vv Wv]. fold v in Vv, Wv.
      destruct (T_heap Ser blen s2 (bo_loc (get_obj s2 oid)) v C2 Wv) as [C3 L3]; [discriminate|].
      change (update_root s2 oid (Some (e_val e1))) with (set_data s2 oid v).
      change (upd_heap s2 (nset (bo_loc (get_obj s2 oid)) v (b_heap s2))) with (set_data s2 oid v) in C3, L3.
      assert (O3 : ostable s (set_data s2 oid v)).
      { eapply ostable_trans; [exact Os0|]. eapply ostable_trans; [exact O2|]. apply ostable_objs; reflexivity. }
      split; [split; [exact C3|split; [exact R2|exact Sz2]]|].
      split; [eapply leq_trans; [exact L0|]; eapply leq_trans; [exact L2|exact L3]|].
      split; [exact O3|]. split.
      * rewrite data_of_set_data. eapply VEq_trans; [exact Vv|exact Ve1].
      * left. rewrite (ostable_buffered _ _ oid O3). exact Ebuf.
    + (* Shm *)
      inversion H; subst s1 x. clear H. split; [reflexivity|].
      assert (Ho0 : nlookup oid (b_objs s0) = Some o) by (rewrite O0; exact Ho).
      pose proof (T_set_loc Shm blen s0 oid o e1 C0 Ho0 He1) as C1.
      pose proof (ostable_set_loc s0 oid (e_loc e1)) as O1.
      split; [split; [exact C1|split]|].
      * intros g e He. destruct (R0 g e He) as (w & A & B & D). exists w. split; [exact A|].
        split; [rewrite (ostable_file _ _ w O1); exact B|]. rewrite (ostable_buffered _ _ w O1). exact D.
      * change (b_size s0 <= b_cap s0). rewrite (Sz0 eq_refl), Cap0. exact Hs.
      * split; [eapply leq_trans; [exact L0|apply leq_ext; reflexivity]|].
        split; [eapply ostable_trans; [exact Os0|exact O1]|]. split.
        -- destruct (c_locs _ _ _ C0 eq_refl) as [own [_ L2]]. destruct (L2 _ _ He1) as (_ & _ & P3).
           rewrite (data_of_set_loc_present s0 oid (e_loc e1) P3). exact Ve1.
        -- left. rewrite (ostable_buffered _ _ oid (ostable_trans _ _ _ Os0 O1)). exact Ebuf.
  - (* not buffered *)
    pose proof (uniform_no_entry s oid o Ho U Ebuf) as Hn.
    unfold logical in Hc. rewrite Hn in Hc. rewrite Hc in H. cbn [update_root] in H.
    inversion H; subst s1 x. clear H. split; [reflexivity|].
    set (v := vmerge (data_of s oid) c).
    assert (Wc : wf_val c = true) by (eapply read_disk_wf; [exact (c_wf _ _ _ C)|exact Hc]).
    destruct (vmerge_VEq (data_of s oid) c (data_of_wf s oid (c_wf _ _ _ C)) Wc) as [Vv Wv]. fold v in Vv, Wv.
    destruct (T_heap strat blen s (bo_loc (get_obj s oid)) v C Wv) as [C1 L1].
    { rewrite G. eapply not_shared; eauto. }
    change (upd_heap s (nset (bo_loc (get_obj s oid)) v (b_heap s))) with (set_data s oid v) in C1, L1.
    split; [split; [exact C1|split; [exact R|exact Hs]]|]. split; [exact L1|].
    split; [apply ostable_objs; reflexivity|]. split; [rewrite data_of_set_data; exact Vv|].
    right. change (nlookup (bo_file (get_obj s oid)) (b_buffer s) = None). rewrite G. exact Hn.
Qed.

(* ------------------------------------------------------------------ *)
(* _save                                                               *)
(* ------------------------------------------------------------------ *)
Lemma same_loc_same_file s g f e1 e2 :
  locs_ok Shm s -> nlookup g (b_buffer s) = Some e1 -> nlookup f (b_buffer s) = Some e2 ->
  e_loc e1 = e_loc e2 -> g = f.
Proof.
  intros L H1 H2 El. destruct (L eq_refl) as [own [_ L2]].
  destruct (L2 _ _ H1) as [A _]. destruct (L2 _ _ H2) as [B _]. congruence.
Qed.

(* Shm: the new data goes into the shared container of a modified entry; the object is pointed at it *)
Lemma shm_save_entry blen sm oid o em d' :
  core Shm blen sm -> nlookup oid (b_objs sm) = Some o -> nlookup (bo_file o) (b_buffer sm) = Some em ->
  e_mod em = true -> wf_val d' = true ->
  let sd := set_data sm oid d' in
  let sf := if Nat.eqb (e_loc em) (bo_loc o) then sd
            else set_loc (upd_heap sd (nset (e_loc em) d' (b_heap sd))) oid (e_loc em) in
  core Shm blen sf /\ leq_except Shm (bo_file o) sm sf /\ logical Shm sf (bo_file o) = Some d' /\ ostable sm sf.
Proof.
  intros C Ho He Hm Wd sd sf. pose proof (known_get _ _ _ Ho) as G.
  destruct (Nat.eqb (e_loc em) (bo_loc o)) eqn:El.
  - apply Nat.eqb_eq in El. subst sf.
    destruct (T_heap_mod blen sm (bo_loc (get_obj sm oid)) d' (bo_file o) C Wd) as [C1 L1].
    { rewrite G. intros g e1 Hg Hl. pose proof (no_alias sm oid o g e1 (c_locs _ _ _ C) Ho Hg Hl) as ->.
      split; [reflexivity|]. congruence. }
    change (upd_heap sm (nset (bo_loc (get_obj sm oid)) d' (b_heap sm))) with sd in C1, L1.
    split; [exact C1|]. split; [exact L1|]. split; [|apply ostable_objs; reflexivity].
    unfold logical. change (b_buffer sd) with (b_buffer sm). rewrite He. unfold entry_content.
    unfold sd, set_data. rewrite heap_at_nset, G, El, Nat.eqb_refl. reflexivity.
  - apply Nat.eqb_neq in El. subst sf.
    destruct (T_heap Shm blen sm (bo_loc (get_obj sm oid)) d' C Wd) as [C1 L1].
    { rewrite G. intros _ g e1 Hg Hl. pose proof (no_alias sm oid o g e1 (c_locs _ _ _ C) Ho Hg Hl) as ->.
      congruence. }
    change (upd_heap sm (nset (bo_loc (get_obj sm oid)) d' (b_heap sm))) with sd in C1, L1.
    assert (Hed : nlookup (bo_file o) (b_buffer sd) = Some em) by exact He.
    destruct (T_heap_mod blen sd (e_loc em) d' (bo_file o) C1 Wd) as [C2 L2].
    { intros g e1 Hg Hl. pose proof (same_loc_same_file sd g (bo_file o) e1 em (c_locs _ _ _ C1) Hg Hed Hl) as ->.
      split; [reflexivity|]. congruence. }
    set (sh := upd_heap sd (nset (e_loc em) d' (b_heap sd))) in *.
    assert (Hoh : nlookup oid (b_objs sh) = Some o) by exact Ho.
    assert (Heh : nlookup (bo_file o) (b_buffer sh) = Some em) by exact He.
    pose proof (T_set_loc Shm blen sh oid o em C2 Hoh Heh) as C3.
    split; [exact C3|]. split.
    + eapply leq_except_trans; [apply leq_leq_except; exact L1|].
      eapply leq_except_trans; [exact L2|]. apply leq_leq_except. apply leq_ext; reflexivity.
    + split.
      * unfold logical. change (b_buffer (set_loc sh oid (e_loc em))) with (b_buffer sm). rewrite He.
        unfold entry_content. change (heap_at (set_loc sh oid (e_loc em)) (e_loc em)) with (heap_at sh (e_loc em)).
        unfold sh. rewrite heap_at_nset, Nat.eqb_refl. reflexivity.
      * eapply ostable_trans; [|apply ostable_set_loc]. apply ostable_objs; reflexivity.
Qed.

Lemma save_finish strat blen (Hb : blen_ok blen) s s1 s2 x f d' :
  core strat blen s1 -> reg_inv s1 -> leq_except strat f s s1 -> logical strat s1 f = Some d' -> ostable s s1 ->
  check_capacity strat blen s1 = (s2, x) ->
  x = None /\ coherent_strong strat blen s2 /\ leq_except strat f s s2 /\ ostable s s2
  /\ exists c', logical strat s2 f = Some c' /\ VEq c' d'.
Proof.
  intros C1 R1 Le Lf O1 H.
  destruct (check_capacity_spec strat blen s1 s2 x Hb C1 R1 H) as (-> & CS & L2 & O2 & _).
  split; [reflexivity|]. split; [exact CS|].
  split; [eapply leq_except_trans; [exact Le|apply leq_leq_except; exact L2]|].
  split; [eapply ostable_trans; eauto|].
  specialize (L2 f). rewrite Lf in L2. destruct (logical strat s2 f) as [c'|]; [|destruct L2].
  exists c'. split; [reflexivity|exact L2].
Qed.

Lemma logical_write_other strat s f w g : g <> f ->
  logical strat (write_disk s f w) g = logical strat s g.
Proof.
  intros Hg. unfold logical. change (b_buffer (write_disk s f w)) with (b_buffer s).
  destruct (nlookup g (b_buffer s)); [reflexivity|]. rewrite read_disk_write. apply Nat.eqb_neq in Hg. rewrite Hg. reflexivity.
Qed.

Lemma save_spec strat blen (Hb : blen_ok blen) s oid o d' s2 x :
  coherent_strong strat blen s -> nlookup oid (b_objs s) = Some o -> uniform_for s oid -> wf_val d' = true ->
  save strat blen (set_data s oid d') oid = (s2, x) ->
  x = None /\ coherent_strong strat blen s2 /\ leq_except strat (bo_file o) s s2 /\ ostable s s2
  /\ exists c', logical strat s2 (bo_file o) = Some c' /\ VEq c' d'.
Proof.
  intros (C & R & Hs) Ho U Wd H. pose proof (known_get _ _ _ Ho) as G.
  set (sd := set_data s oid d') in *.
  assert (Hdd : data_of sd oid = d') by apply data_of_set_data.
  unfold save in H. change (is_buffered sd oid) with (is_buffered s oid) in H.
  change (get_obj sd oid) with (get_obj s oid) in H. rewrite G in H.
  destruct (is_buffered s oid) eqn:Ebuf.
  2:{ (* not buffered: written through *)
    pose proof (uniform_no_entry s oid o Ho U Ebuf) as Hn.
    rewrite Hdd in H. inversion H; subst s2 x. clear H. split; [reflexivity|].
    destruct (T_heap strat blen s (bo_loc (get_obj s oid)) d' C Wd) as [C1 L1].
    { rewrite G. eapply not_shared; eauto. }
    change (upd_heap s (nset (bo_loc (get_obj s oid)) d' (b_heap s))) with sd in C1, L1.
    assert (Hnd : nlookup (bo_file o) (b_buffer sd) = None) by exact Hn.
    pose proof (T_write_free strat blen sd (bo_file o) d' C1 Hnd Wd) as C2.
    split; [split; [exact C2|split; [exact R|exact Hs]]|].
    split; [intros g Hg; rewrite (logical_write_other strat sd (bo_file o) d' g Hg); apply L1|].
    split; [apply ostable_objs; reflexivity|]. exists d'. split; [|apply VEq_refl].
    unfold logical. change (b_buffer (write_disk sd (bo_file o) d')) with (b_buffer s). rewrite Hn.
    rewrite read_disk_write, Nat.eqb_refl. reflexivity. }
  (* buffered *)
  unfold save_to_buffer in H. cbv zeta in H. rewrite (register_eq sd oid) in H.
  set (l' := b_bcs (register sd oid)) in *.
  assert (Hl : forall y, In y l' -> known_obj s y).
  { intros y Hy. apply In_register_inv in Hy. destruct Hy as [->|Hy]; [exists o; exact Ho|apply (c_known _ _ _ C); exact Hy]. }
  assert (Hin : forall y, In y (b_bcs s) -> In y l') by (intros y Hy; apply (In_register_old sd oid); exact Hy).
  assert (Hio : In oid l') by apply In_register.
  change (get_obj (upd_bcs sd l') oid) with (get_obj s oid) in H. rewrite G in H.
  change (b_buffer (upd_bcs sd l')) with (b_buffer s) in H.
  change (data_of (upd_bcs sd l') oid) with (data_of sd oid) in H. rewrite Hdd in H.
  pose proof (c_disk _ _ _ C oid o Ho) as Hdisk.
  destruct (read_disk s (bo_file o)) as [d|] eqn:Hd; [clear Hdisk|congruence].
  assert (RA : forall s1, ostable s s1 -> b_bcs s1 = l' ->
               (forall g e, nlookup g (b_buffer s1) = Some e -> g = bo_file (get_obj s oid) \/ exists e0, nlookup g (b_buffer s) = Some e0) ->
               reg_inv s1).
  { intros s1 O1 B1 Bf. apply (reg_inv_after s s1 oid R O1); [rewrite B1; exact Hin|rewrite B1; exact Hio|exact Ebuf|exact Bf]. }
  rewrite G in RA.
  destruct strat.
  - (* Ser *)
    destruct (T_heap Ser blen s (bo_loc (get_obj s oid)) d' C Wd) as [C1 L1]; [discriminate|].
    change (upd_heap s (nset (bo_loc (get_obj s oid)) d' (b_heap s))) with sd in C1, L1.
    assert (C0 : core Ser blen (upd_bcs sd l')) by (apply T_bcs; [exact C1|exact Hl]).
    destruct (nlookup (bo_file o) (b_buffer s)) as [e|] eqn:He.
    + set (e' := {| e_val := d'; e_loc := e_loc e; e_hash := e_hash e; e_meta := e_meta e; e_mod := e_mod e |}) in *.
      set (s1 := upd_size (set_entry (upd_bcs sd l') (bo_file o) e') (b_size (upd_bcs sd l') + blen d' - blen (e_val e))) in *.
      assert (C2 : core Ser blen s1).
      { apply T_set; try exact C0.
        - change (b_buffer (upd_bcs sd l')) with (b_buffer s). rewrite He. unfold wopt, wt, e'. cbn [e_val]. lia.
        - exact Wd.
        - destruct (c_wf _ _ _ C) as (_ & _ & W3). apply (W3 _ _ He).
        - destruct (c_ent _ _ _ C _ _ He) as [M [d0 [Hd0 Hv]]]. split; [exact M|]. exists d0. split; [exact Hd0|exact Hv].
        - discriminate. }
      apply (save_finish Ser blen Hb s s1 s2 x (bo_file o) d' C2); [| | | |exact H].
      * apply RA; [apply ostable_objs; reflexivity|reflexivity|].
        intros g e1. unfold s1, set_entry. prj. change (b_buffer sd) with (b_buffer s). rewrite nlookup_nset.
        destruct (Nat.eqb g (bo_file o)) eqn:Eg; [apply Nat.eqb_eq in Eg; auto|]. intros Hg. right. exists e1. exact Hg.
      * intros g Hg. unfold s1. rewrite logical_set. apply Nat.eqb_neq in Hg. rewrite Hg. apply L1.
      * unfold s1. rewrite logical_set, Nat.eqb_refl. reflexivity.
      * apply ostable_objs; reflexivity.
    + rewrite init_entry_eq in H. change (get_obj (upd_bcs sd l') oid) with (get_obj s oid) in H. rewrite G in H.
      change (data_of (upd_bcs sd l') oid) with (data_of sd oid) in H. rewrite Hdd in H.
      set (s0 := upd_bcs sd l') in *.
      set (e0 := {| e_val := d'; e_loc := bo_loc o; e_hash := d'; e_meta := stamp s0 (bo_file o); e_mod := false |}) in *.
      set (sz := b_size s0 + blen d') in *.
      assert (Hl0 : nlookup (bo_file o) (b_buffer (upd_size (set_entry s0 (bo_file o) e0) sz)) = Some e0).
      { unfold set_entry. prj. apply nlookup_nset_same. }
      rewrite Hl0 in H.
      change (read_disk (upd_size (set_entry s0 (bo_file o) e0) sz) (bo_file o)) with (read_disk s (bo_file o)) in H.
      rewrite Hd in H. cbn [e_val e_loc e_meta e_mod e0] in H.
      set (e1 := {| e_val := d'; e_loc := bo_loc o; e_hash := d; e_meta := stamp s0 (bo_file o); e_mod := false |}) in *.
      assert (Eq : set_entry (upd_size (set_entry s0 (bo_file o) e0) sz) (bo_file o) e1
                   = upd_size (set_entry s0 (bo_file o) e1) sz).
      { unfold set_entry, upd_size, upd_buffer. prj. f_equal. apply nset_nset. }
      rewrite Eq in H. clear Eq Hl0.
      set (s1 := upd_size (set_entry s0 (bo_file o) e1) sz) in *.
      assert (C2 : core Ser blen s1).
      { apply T_set; try exact C0.
        - change (b_buffer s0) with (b_buffer s). rewrite He. unfold wopt, wt, sz. cbn [e_val e1]. lia.
        - exact Wd.
        - eapply read_disk_wf; [exact (c_wf _ _ _ C)|exact Hd].
        - split; [reflexivity|]. exists d. split; [exact Hd|apply VEq_refl].
        - discriminate. }
      apply (save_finish Ser blen Hb s s1 s2 x (bo_file o) d' C2); [| | | |exact H].
      * apply RA; [apply ostable_objs; reflexivity|reflexivity|].
        intros g e2. unfold s1, set_entry. prj. change (b_buffer sd) with (b_buffer s). rewrite nlookup_nset.
        destruct (Nat.eqb g (bo_file o)) eqn:Eg; [apply Nat.eqb_eq in Eg; auto|]. intros Hg. right. exists e2. exact Hg.
      * intros g Hg. unfold s1. rewrite logical_set. apply Nat.eqb_neq in Hg. rewrite Hg. apply L1.
      * unfold s1. rewrite logical_set, Nat.eqb_refl. reflexivity.
      * apply ostable_objs; reflexivity.
  - (* Shm *)
    destruct (c_wf _ _ _ C) as (_ & _ & W3).
    destruct (nlookup (bo_file o) (b_buffer s)) as [e|] eqn:He.
    + destruct (c_locs _ _ _ C eq_refl) as [own [_ LL2]]. destruct (LL2 _ _ He) as (_ & _ & P3).
      destruct (e_mod e) eqn:Em.
      * (* already modified *)
        pose proof (shm_save_entry blen s oid o e d' C Ho He Em Wd) as Q. cbv zeta in Q. fold sd in Q.
        destruct (Nat.eqb (e_loc e) (bo_loc o)) eqn:El; destruct Q as (Cf & Lef & Lff & Of);
          match type of Cf with core _ _ ?sf =>
            apply (save_finish Shm blen Hb s (upd_bcs sf l') s2 x (bo_file o) d');
              [ apply T_bcs; [exact Cf|intros y Hy; apply (ostable_known _ _ y Of); apply Hl; exact Hy]
              | apply RA; [eapply ostable_trans; [exact Of|apply ostable_objs; reflexivity]|reflexivity|];
                intros g e1 Hg; right; exists e1; exact Hg
              | eapply leq_except_trans; [exact Lef|apply leq_leq_except; apply leq_ext; reflexivity]
              | exact Lff
              | eapply ostable_trans; [exact Of|apply ostable_objs; reflexivity]
              | exact H ]
          end.
      * (* first modification *)
        set (em := {| e_val := e_val e; e_loc := e_loc e; e_hash := e_hash e; e_meta := e_meta e; e_mod := true |}) in *.
        set (sm := upd_size (set_entry s (bo_file o) em) (b_size s + 1)).
        assert (Cm : core Shm blen sm).
        { apply T_set; try exact C; try (apply (W3 _ _ He)).
          - rewrite He. unfold wopt, wt, em. cbn [e_mod]. rewrite Em. lia.
          - destruct (c_ent _ _ _ C _ _ He) as [M [d0 [Hd0 Hv]]]. split; [exact M|]. exists d0. split; [exact Hd0|].
            unfold em. cbn [e_mod]. discriminate.
          - intros _. split; [right; exists e; split; [exact He|reflexivity]|exact P3]. }
        assert (Hom : nlookup oid (b_objs sm) = Some o) by exact Ho.
        assert (Hem : nlookup (bo_file o) (b_buffer sm) = Some em).
        { unfold sm, set_entry. prj. apply nlookup_nset_same. }
        assert (Lm : leq_except Shm (bo_file o) s sm).
        { intros g Hg. unfold sm. rewrite logical_set. apply Nat.eqb_neq in Hg. rewrite Hg. apply lrel_refl. }
        pose proof (shm_save_entry blen sm oid o em d' Cm Hom Hem eq_refl Wd) as Q. cbv zeta in Q.
        change (e_loc em) with (e_loc e) in Q.
        destruct (Nat.eqb (e_loc e) (bo_loc o)) eqn:El; destruct Q as (Cf & Lef & Lff & Of);
          match type of Cf with core _ _ ?sf =>
            apply (save_finish Shm blen Hb s (upd_bcs sf l') s2 x (bo_file o) d');
              [ apply T_bcs; [exact Cf|intros y Hy; apply (ostable_known _ _ y Of); apply Hl; exact Hy]
              | apply RA; [eapply ostable_trans; [|eapply ostable_trans; [exact Of|]]; apply ostable_objs; reflexivity|reflexivity|];
                intros g e1; change (b_buffer (upd_bcs sf l')) with (b_buffer sm); unfold sm, set_entry; prj;
                rewrite nlookup_nset; destruct (Nat.eqb g (bo_file o)) eqn:Eg; [apply Nat.eqb_eq in Eg; auto|];
                intros Hg; right; exists e1; exact Hg
              | eapply leq_except_trans; [exact Lm|];
                eapply leq_except_trans; [exact Lef|apply leq_leq_except; apply leq_ext; reflexivity]
              | exact Lff
              | eapply ostable_trans; [|eapply ostable_trans; [exact Of|]]; apply ostable_objs; reflexivity
              | exact H ]
          end.
    + (* no entry yet *)
      rewrite init_entry_eq in H. change (get_obj (upd_bcs sd l') oid) with (get_obj s oid) in H. rewrite G in H.
      change (data_of (upd_bcs sd l') oid) with (data_of sd oid) in H. rewrite Hdd in H.
      destruct (T_heap Shm blen s (bo_loc (get_obj s oid)) d' C Wd) as [C1 L1].
      { rewrite G. eapply not_shared; eauto. }
      change (upd_heap s (nset (bo_loc (get_obj s oid)) d' (b_heap s))) with sd in C1, L1.
      assert (C0 : core Shm blen (upd_bcs sd l')) by (apply T_bcs; [exact C1|exact Hl]).
      set (s0 := upd_bcs sd l') in *.
      set (e0 := {| e_val := d'; e_loc := bo_loc o; e_hash := d'; e_meta := stamp s0 (bo_file o); e_mod := true |}) in *.
      set (s1 := upd_size (set_entry s0 (bo_file o) e0) (b_size s0 + 1)).
      assert (Hh : heap_at s0 (bo_loc o) = d').
      { unfold s0, sd, set_data. change (heap_at (upd_bcs ?a ?b) ?c) with (heap_at a c).
        rewrite heap_at_nset, G, Nat.eqb_refl. reflexivity. }
      assert (C2 : core Shm blen s1).
      { apply T_set; try exact C0; try exact Wd.
        - change (b_buffer s0) with (b_buffer s). rewrite He. unfold wopt, wt, e0. cbn [e_mod]. lia.
        - split; [reflexivity|]. exists d. split; [exact Hd|]. unfold e0. cbn [e_mod]. discriminate.
        - intros _. split; [left; exists oid, o; split; [exact Ho|split; reflexivity]|].
          unfold e0. cbn [e_loc]. unfold s0, sd, set_data. prj. rewrite G, nlookup_nset_same. discriminate. }
      apply (save_finish Shm blen Hb s s1 s2 x (bo_file o) d' C2); [| | | |exact H].
      * apply RA; [apply ostable_objs; reflexivity|reflexivity|].
        intros g e2. unfold s1, set_entry. prj. change (b_buffer sd) with (b_buffer s). rewrite nlookup_nset.
        destruct (Nat.eqb g (bo_file o)) eqn:Eg; [apply Nat.eqb_eq in Eg; auto|]. intros Hg. right. exists e2. exact Hg.
      * intros g Hg. unfold s1. rewrite logical_set. apply Nat.eqb_neq in Hg. rewrite Hg. apply L1.
      * unfold s1. rewrite logical_set, Nat.eqb_refl. unfold entry_content, e0. cbn [e_loc]. rewrite Hh. reflexivity.
      * apply ostable_objs; reflexivity.
Qed.
