(* Correspondence K4: the file operations observed with strace equal Crash.save_prog / flush_prog. *)
From Coq Require Import List NArith Bool.
From SC Require Import Model.Crash.
Import ListNotations.

Fixpoint bytes_eqb (a b : list N) : bool :=
  match a, b with
  | [], [] => true
  | x :: a', y :: b' => N.eqb x y && bytes_eqb a' b'
  | _, _ => false
  end.

Definition act_eqb (a b : fsact) : bool :=
  match a, b with
  | FOpenTrunc p, FOpenTrunc q => fname_eqb p q
  | FWrite p x, FWrite q y => fname_eqb p q && bytes_eqb x y
  | FClose p, FClose q => fname_eqb p q
  | FRename s d, FRename s' d' => fname_eqb s s' && fname_eqb d d'
  | _, _ => false
  end.

Fixpoint acts_eqb (a b : list fsact) : bool :=
  match a, b with
  | [], [] => true
  | x :: a', y :: b' => act_eqb x y && acts_eqb a' b'
  | _, _ => false
  end.

(* observed actions; expected program given as (atomic, target, tmp, blob) per save, in order *)
Definition k4_check (observed : list fsact) (saves : list (bool * fname * fname * option bytes)) : bool :=
  acts_eqb observed
    (flat_map (fun s => match s with (a, t, tm, b) => save_prog a t tm b end) saves).

(* the temporary name has the shape "._<uuid>_<basename>" *)
Definition is_tmp_of (tmp base : fname) : bool :=
  match tmp with
  | 46%N :: 95%N :: rest =>
      let n := length rest - length base in
      (Nat.ltb 0 n) && fname_eqb (skipn n rest) base
      && match nth_error rest (n - 1) with Some 95%N => true | _ => false end
  | _ => false
  end.
