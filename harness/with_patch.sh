#!/bin/bash
# with_patch.sh <seeded dir> <command...> : apply the seeded change to /repo, run the command, always undo it
d=$(cd "$1" && pwd); shift
[ -z "$(git -C /repo status --porcelain)" ] || { echo "refusing: /repo is not clean"; exit 2; }
export VERIF_EVIDENCE_DIR=/tmp/verif_evidence_seeded
git -C /repo apply "$d/patch.diff" || exit 2
trap 'git -C /repo checkout -- .' EXIT
"$@"
