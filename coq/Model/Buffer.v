(* Buffer.v — the file-buffering layer (buffers/*.py), both strategies, as a state
   machine over root objects with plain content.  Shared-memory containers are
   heap locations, so that in-place mutation and rebinding of _data are distinct.
   Definitions only. *)
From Coq Require Import List ZArith NArith Bool.
From SC Require Import Model.Val Model.Plain Model.Ops.
Import ListNotations.
Local Open Scope Z_scope.

Inductive strategy := Ser | Shm.

(* ---- the plain shadow of SyncedDict/SyncedList._update: order-faithful merge *)
Section VMerge.
  Variable vmerge : val -> val -> val.
  Fixpoint vmerge_list (old new : list val) : list val :=
    match old, new with
    | o :: old', n :: new' => vmerge o n :: vmerge_list old' new'
    | _, _ => new
    end.
  Fixpoint vmerge_entries (new : list (key * val)) (acc : list (key * val)) : list (key * val) :=
    match new with
    | [] => acc
    | (k, n) :: new' =>
        vmerge_entries new' (dict_set acc k (match alookup k acc with Some o => vmerge o n | None => n end))
    end.
End VMerge.

Fixpoint vmerge_fuel (fuel : nat) (old new : val) : val :=
  match fuel with
  | O => new
  | S f =>
      match old, new with
      | VS a, VS b => if seq_strict a b then old else new
      | VL l, VL m => VL (vmerge_list (vmerge_fuel f) l m)
      | VD d, VD e =>
          VD (filter (fun kv : key * val => dict_has e (fst kv)) (vmerge_entries (vmerge_fuel f) e d))
      | _, _ => new
      end
  end.

Fixpoint val_depth (v : val) : nat :=
  match v with
  | VS _ => 1
  | VL l => S (fold_right (fun x acc => Nat.max (val_depth x) acc) 0%nat l)
  | VD d => S (fold_right (fun (kv : key * val) acc => Nat.max (val_depth (snd kv)) acc) 0%nat d)
  end.
Definition vmerge (old new : val) : val := vmerge_fuel (S (val_depth new)) old new.

(* ---- operations at a path inside plain data *)

(* one operation on plain data with the library's merge order for reset / update *)
Definition merge_nop (v : val) (o : nop) : option (res val * val) :=
  match v, o with
  | VL l, OL lo =>
      let (r, l') := plain_lop l lo in
      match lo, r with
      | LReset w, Ok _ => Some (r, vmerge v w)
      | _, _ => Some (r, VL l')
      end
  | VD d, OD dop_ =>
      let (r, d') := plain_dop d dop_ in
      match dop_, r with
      | DReset w, Ok _ => Some (r, vmerge v w)
      | DUpdate w, Ok _ =>
          match as_mapping w with
          | Ok od => Some (r, VD (vmerge_entries vmerge od d))
          | Err _ => Some (r, VD d')
          end
      | _, _ => Some (r, VD d')
      end
  | _, _ => None
  end.

Fixpoint apply_at (p : path) (o : nop) (v : val) : option (res val * val) :=
  match p with
  | [] => merge_nop v o
  | PKey k :: p' =>
      match v with
      | VD d => match alookup k d with
                | Some c => match apply_at p' o c with
                            | Some (r, c') => Some (r, VD (dict_set d k c'))
                            | None => None
                            end
                | None => None
                end
      | _ => None
      end
  | PIdx i :: p' =>
      match v with
      | VL l => match nth_error l i with
                | Some c => match apply_at p' o c with
                            | Some (r, c') => Some (r, VL (set_nth l i c'))
                            | None => None
                            end
                | None => None
                end
      | _ => None
      end
  end.

(* ---- state *)
Record entry := {
  e_val : val;            (* Ser: decoded contents *)
  e_loc : nat;            (* Shm: the shared container *)
  e_hash : val;           (* Ser: content whose hash was recorded *)
  e_meta : option nat;    (* file stamp when the entry was created / last force-flushed *)
  e_mod : bool;           (* Shm *)
}.

Record bobj := { bo_file : nat; bo_loc : nat; bo_buf : nat; bo_kind : kind }.

Record bstate := {
  b_files : list (nat * (val * nat));   (* file -> content, stamp *)
  b_clock : nat;
  b_writes : list nat;                  (* files written by the library, newest first *)
  b_heap : list (nat * val);
  b_nloc : nat;
  b_objs : list (nat * bobj);
  b_buffer : list (nat * entry);
  b_size : Z;
  b_cap : Z;
  b_stack : list (option Z);
  b_ctx : nat;
  b_bcs : list nat;                     (* _buffered_collections, insertion order *)
  b_forced : nat;                       (* ghost: number of capacity-forced flushes so far *)
}.

Inductive exn := XMeta (f : nat) | XBuf (fs : list nat).

Fixpoint nlookup {A} (k : nat) (l : list (nat * A)) : option A :=
  match l with [] => None | (k', v) :: l' => if Nat.eqb k k' then Some v else nlookup k l' end.
Fixpoint nset {A} (k : nat) (v : A) (l : list (nat * A)) : list (nat * A) :=
  match l with
  | [] => [(k, v)]
  | (k', v') :: l' => if Nat.eqb k k' then (k, v) :: l' else (k', v') :: nset k v l'
  end.
Fixpoint nremove {A} (k : nat) (l : list (nat * A)) : list (nat * A) :=
  match l with [] => [] | (k', v') :: l' => if Nat.eqb k k' then l' else (k', v') :: nremove k l' end.
Definition nmem (k : nat) (l : list nat) : bool := existsb (Nat.eqb k) l.

Section WithParams.
  Variable strat : strategy.
  Variable blen : val -> Z.             (* len(json.dumps(v)) *)

  Definition empty_of (k : kind) : val := match k with KList => VL [] | _ => VD [] end.

  (* record updates *)
  Definition upd_files s x := {| b_files := x; b_clock := b_clock s; b_writes := b_writes s; b_heap := b_heap s; b_nloc := b_nloc s; b_objs := b_objs s; b_buffer := b_buffer s; b_size := b_size s; b_cap := b_cap s; b_stack := b_stack s; b_ctx := b_ctx s; b_bcs := b_bcs s; b_forced := b_forced s |}.
  Definition upd_heap s x := {| b_files := b_files s; b_clock := b_clock s; b_writes := b_writes s; b_heap := x; b_nloc := b_nloc s; b_objs := b_objs s; b_buffer := b_buffer s; b_size := b_size s; b_cap := b_cap s; b_stack := b_stack s; b_ctx := b_ctx s; b_bcs := b_bcs s; b_forced := b_forced s |}.
  Definition upd_objs s x := {| b_files := b_files s; b_clock := b_clock s; b_writes := b_writes s; b_heap := b_heap s; b_nloc := b_nloc s; b_objs := x; b_buffer := b_buffer s; b_size := b_size s; b_cap := b_cap s; b_stack := b_stack s; b_ctx := b_ctx s; b_bcs := b_bcs s; b_forced := b_forced s |}.
  Definition upd_buffer s x := {| b_files := b_files s; b_clock := b_clock s; b_writes := b_writes s; b_heap := b_heap s; b_nloc := b_nloc s; b_objs := b_objs s; b_buffer := x; b_size := b_size s; b_cap := b_cap s; b_stack := b_stack s; b_ctx := b_ctx s; b_bcs := b_bcs s; b_forced := b_forced s |}.
  Definition upd_size s x := {| b_files := b_files s; b_clock := b_clock s; b_writes := b_writes s; b_heap := b_heap s; b_nloc := b_nloc s; b_objs := b_objs s; b_buffer := b_buffer s; b_size := x; b_cap := b_cap s; b_stack := b_stack s; b_ctx := b_ctx s; b_bcs := b_bcs s; b_forced := b_forced s |}.
  Definition upd_cap s x := {| b_files := b_files s; b_clock := b_clock s; b_writes := b_writes s; b_heap := b_heap s; b_nloc := b_nloc s; b_objs := b_objs s; b_buffer := b_buffer s; b_size := b_size s; b_cap := x; b_stack := b_stack s; b_ctx := b_ctx s; b_bcs := b_bcs s; b_forced := b_forced s |}.
  Definition upd_stack s x := {| b_files := b_files s; b_clock := b_clock s; b_writes := b_writes s; b_heap := b_heap s; b_nloc := b_nloc s; b_objs := b_objs s; b_buffer := b_buffer s; b_size := b_size s; b_cap := b_cap s; b_stack := x; b_ctx := b_ctx s; b_bcs := b_bcs s; b_forced := b_forced s |}.
  Definition upd_ctx s x := {| b_files := b_files s; b_clock := b_clock s; b_writes := b_writes s; b_heap := b_heap s; b_nloc := b_nloc s; b_objs := b_objs s; b_buffer := b_buffer s; b_size := b_size s; b_cap := b_cap s; b_stack := b_stack s; b_ctx := x; b_bcs := b_bcs s; b_forced := b_forced s |}.
  Definition upd_bcs s x := {| b_files := b_files s; b_clock := b_clock s; b_writes := b_writes s; b_heap := b_heap s; b_nloc := b_nloc s; b_objs := b_objs s; b_buffer := b_buffer s; b_size := b_size s; b_cap := b_cap s; b_stack := b_stack s; b_ctx := b_ctx s; b_bcs := x; b_forced := b_forced s |}.

  Definition read_disk (s : bstate) (f : nat) : option val :=
    match nlookup f (b_files s) with Some (v, _) => Some v | None => None end.
  Definition stamp (s : bstate) (f : nat) : option nat :=
    match nlookup f (b_files s) with Some (_, st) => Some st | None => None end.
  Definition opt_nat_eqb (a b : option nat) : bool :=
    match a, b with Some x, Some y => Nat.eqb x y | None, None => true | _, _ => false end.

  Definition write_disk_raw (s : bstate) (f : nat) (v : val) : bstate :=
    {| b_files := nset f (v, b_clock s) (b_files s); b_clock := S (b_clock s); b_writes := b_writes s;
       b_heap := b_heap s; b_nloc := b_nloc s; b_objs := b_objs s; b_buffer := b_buffer s;
       b_size := b_size s; b_cap := b_cap s; b_stack := b_stack s; b_ctx := b_ctx s; b_bcs := b_bcs s; b_forced := b_forced s |}.
  (* a write by the library *)
  Definition write_disk (s : bstate) (f : nat) (v : val) : bstate :=
    let s1 := write_disk_raw s f v in
    {| b_files := b_files s1; b_clock := b_clock s1; b_writes := f :: b_writes s;
       b_heap := b_heap s1; b_nloc := b_nloc s1; b_objs := b_objs s1; b_buffer := b_buffer s1;
       b_size := b_size s1; b_cap := b_cap s1; b_stack := b_stack s1; b_ctx := b_ctx s1; b_bcs := b_bcs s1; b_forced := b_forced s1 |}.

  Definition get_obj (s : bstate) (oid : nat) : bobj :=
    match nlookup oid (b_objs s) with Some o => o
    | None => {| bo_file := 0; bo_loc := 0; bo_buf := 0; bo_kind := KDict |} end.
  Definition data_of (s : bstate) (oid : nat) : val :=
    let o := get_obj s oid in
    match nlookup (bo_loc o) (b_heap s) with Some v => v | None => empty_of (bo_kind o) end.
  Definition set_data (s : bstate) (oid : nat) (v : val) : bstate :=
    upd_heap s (nset (bo_loc (get_obj s oid)) v (b_heap s)).
  Definition set_loc (s : bstate) (oid : nat) (loc : nat) : bstate :=
    let o := get_obj s oid in
    upd_objs s (nset oid {| bo_file := bo_file o; bo_loc := loc; bo_buf := bo_buf o; bo_kind := bo_kind o |} (b_objs s)).
  Definition set_buf (s : bstate) (oid : nat) (n : nat) : bstate :=
    let o := get_obj s oid in
    upd_objs s (nset oid {| bo_file := bo_file o; bo_loc := bo_loc o; bo_buf := n; bo_kind := bo_kind o |} (b_objs s)).

  Definition is_buffered (s : bstate) (oid : nat) : bool :=
    Nat.ltb 0 (bo_buf (get_obj s oid)) || Nat.ltb 0 (b_ctx s).

  (* _update(data) on a root, in place; data = None (missing file) leaves it alone *)
  Definition update_root (s : bstate) (oid : nat) (d : option val) : bstate :=
    match d with None => s | Some v => set_data s oid (vmerge (data_of s oid) v) end.

  Definition register (s : bstate) (oid : nat) : bstate :=
    if nmem oid (b_bcs s) then s else upd_bcs s (b_bcs s ++ [oid]).

  Definition init_entry (s : bstate) (oid : nat) (modified : bool) : bstate :=
    let o := get_obj s oid in
    let f := bo_file o in
    let d := data_of s oid in
    let e := {| e_val := d; e_loc := bo_loc o; e_hash := d; e_meta := stamp s f; e_mod := modified |} in
    let s1 := upd_buffer s (nset f e (b_buffer s)) in
    match strat with Ser => upd_size s1 (b_size s1 + blen d) | Shm => s1 end.

  Definition set_entry (s : bstate) (f : nat) (e : entry) : bstate := upd_buffer s (nset f e (b_buffer s)).
  Definition del_entry (s : bstate) (f : nat) : bstate := upd_buffer s (nremove f (b_buffer s)).

  (* FileBufferedCollection._load_from_buffer *)
  Definition load_from_buffer_base (s : bstate) (oid : nat) : bstate :=
    let f := bo_file (get_obj s oid) in
    let s1 := match nlookup f (b_buffer s) with
              | Some _ => s
              | None => init_entry (update_root s oid (read_disk s f)) oid false
              end in
    register s1 oid.

  (* _flush(force) of one collection *)
  Definition flush_one (s : bstate) (oid : nat) (force : bool) : bstate * option exn :=
    let o := get_obj s oid in
    let f := bo_file o in
    if negb (is_buffered s oid) || force then
      match nlookup f (b_buffer s) with
      | None =>
          match strat with
          | Ser => (s, None)
          | Shm => if force then (s, None)
                   else (set_data s oid (match read_disk s f with Some d => d | None => empty_of (bo_kind o) end), None)
          end
      | Some e =>
          match strat with
          | Ser =>
              let fin (s0 : bstate) := upd_size (del_entry s0 f) (b_size s0 - blen (e_val e)) in
              if veq_text (e_val e) (e_hash e) then (fin s, None)
              else if negb (opt_nat_eqb (e_meta e) (stamp s f)) then (fin s, Some (XMeta f))
              else
                let s1 := update_root s oid (Some (e_val e)) in
                (fin (write_disk s1 f (data_of s1 oid)), None)
          | Shm =>
              (* the stored metadata is refreshed only when this flush wrote the file *)
              let fin (wrote : bool) (s0 : bstate) :=
                let s1 := if e_mod e then upd_size s0 (b_size s0 - 1) else s0 in
                if force
                then set_entry s1 f {| e_val := e_val e; e_loc := e_loc e; e_hash := e_hash e;
                                       e_meta := if wrote then stamp s1 f else e_meta e; e_mod := false |}
                else del_entry s1 f in
              if e_mod e then
                if negb (opt_nat_eqb (e_meta e) (stamp s f)) then (fin false s, Some (XMeta f))
                else
                  (* the object is pointed at the entry's container, which is what gets written *)
                  let s1 := set_loc s oid (e_loc e) in
                  (fin true (write_disk s1 f (data_of s1 oid)), None)
              else (fin false s, None)
          end
      end
    else
      match strat with
      | Ser => (s, None)
      | Shm =>     (* still buffered by the class-wide context: take a private copy of the data *)
          let loc := b_nloc s in
          let s1 := {| b_files := b_files s; b_clock := b_clock s; b_writes := b_writes s;
                       b_heap := nset loc (data_of s oid) (b_heap s); b_nloc := S loc; b_objs := b_objs s;
                       b_buffer := b_buffer s; b_size := b_size s; b_cap := b_cap s; b_stack := b_stack s;
                       b_ctx := b_ctx s; b_bcs := b_bcs s; b_forced := b_forced s |} in
          (set_loc s1 oid loc, None)
      end.

  (* _flush_buffer(force): pops _buffered_collections from the end *)
  Fixpoint flush_loop (todo : list nat) (s : bstate) (force : bool) (remaining issues : list nat)
    : bstate * list nat * list nat :=
    match todo with
    | [] => (s, remaining, issues)
    | oid :: todo' =>
        if is_buffered s oid && negb force then flush_loop todo' s force (remaining ++ [oid]) issues
        else
          let remaining' := match strat with Shm => if force then remaining ++ [oid] else remaining | Ser => remaining end in
          match flush_one s oid force with
          | (s1, Some (XMeta f)) => flush_loop todo' s1 force remaining' (if nmem f issues then issues else issues ++ [f])
          | (s1, _) => flush_loop todo' s1 force remaining' issues
          end
    end.

  Definition flush_buffer (s : bstate) (force : bool) : bstate * option exn :=
    match flush_loop (rev (b_bcs s)) (upd_bcs s []) force [] [] with
    | (s1, remaining, issues) =>
        let s2 := upd_bcs s1 remaining in
        match issues with [] => (s2, None) | _ => (s2, Some (XBuf issues)) end
    end.

  Definition note_forced (s : bstate) : bstate :=
    {| b_files := b_files s; b_clock := b_clock s; b_writes := b_writes s; b_heap := b_heap s; b_nloc := b_nloc s;
       b_objs := b_objs s; b_buffer := b_buffer s; b_size := b_size s; b_cap := b_cap s; b_stack := b_stack s;
       b_ctx := b_ctx s; b_bcs := b_bcs s; b_forced := S (b_forced s) |}.

  Definition check_capacity (s : bstate) : bstate * option exn :=
    if b_cap s <? b_size s then flush_buffer (note_forced s) true else (s, None).

  (* _load of a root *)
  Definition load (s : bstate) (oid : nat) : bstate * option exn :=
    let f := bo_file (get_obj s oid) in
    if is_buffered s oid then
      let s1 := load_from_buffer_base s oid in
      match strat with
      | Ser =>
          let blob := match nlookup f (b_buffer s1) with Some e => Some (e_val e) | None => None end in
          match check_capacity s1 with
          | (s2, Some x) => (s2, Some x)
          | (s2, None) => (update_root s2 oid blob, None)
          end
      | Shm =>
          match nlookup f (b_buffer s1) with
          | Some e => (set_loc s1 oid (e_loc e), None)
          | None => (s1, None)
          end
      end
    else (update_root s oid (read_disk s f), None).

  Definition save_to_buffer (s : bstate) (oid : nat) : bstate * option exn :=
    let s0 := register s oid in
    let o := get_obj s0 oid in
    let f := bo_file o in
    let s1 :=
      match strat, nlookup f (b_buffer s0) with
      | Ser, Some e =>
          let d := data_of s0 oid in
          upd_size (set_entry s0 f {| e_val := d; e_loc := e_loc e; e_hash := e_hash e; e_meta := e_meta e; e_mod := e_mod e |})
                   (b_size s0 + blen d - blen (e_val e))
      | Ser, None =>
          let s' := init_entry s0 oid false in
          match nlookup f (b_buffer s') with
          | Some e => set_entry s' f {| e_val := e_val e; e_loc := e_loc e;
                                        e_hash := match read_disk s' f with Some d => d | None => VS SNull end;
                                        e_meta := e_meta e; e_mod := e_mod e |}
          | None => s'
          end
      | Shm, Some e =>
          let s' := if Nat.eqb (e_loc e) (bo_loc o) then s0
                    else set_loc (upd_heap s0 (nset (e_loc e) (data_of s0 oid) (b_heap s0))) oid (e_loc e) in
          if e_mod e then s'
          else upd_size (set_entry s' f {| e_val := e_val e; e_loc := e_loc e; e_hash := e_hash e;
                                           e_meta := e_meta e; e_mod := true |}) (b_size s' + 1)
      | Shm, None => let s' := init_entry s0 oid true in upd_size s' (b_size s' + 1)
      end in
    check_capacity s1.

  Definition save (s : bstate) (oid : nat) : bstate * option exn :=
    if is_buffered s oid then save_to_buffer s oid
    else (write_disk s (bo_file (get_obj s oid)) (data_of s oid), None).

  Definition set_capacity (s : bstate) (n : Z) : bstate * option exn :=
    let s1 := upd_cap s n in
    if n <? b_size s1 then flush_buffer (note_forced s1) true else (s1, None).

  Inductive bop :=
    | BNew (oid f : nat) (k : kind)
    | BExt (f : nat) (v : val)
    | BOp (oid : nat) (p : path) (o : nop)
    | BEnterObj (oid : nat) | BExitObj (oid : nat)
    | BEnterCls (cap : option Z) | BExitCls
    | BSetCap (n : Z).

  Inductive bres := BOk (v : val) | BErr (e : err) | BExn (x : exn) | BBad.

  Definition res_of (r : res val) : bres := match r with Ok v => BOk v | Err e => BErr e end.

  (* errors raised while converting the argument, before anything is loaded or locked *)
  Definition pre_err (o : nop) : option err :=
    match o with
    | OD (DUpdate v) => match as_mapping v with Err e => Some e | Ok _ => None end
    | OL (LExtend v) | OL (LIAdd v) => match iter_val v with Err e => Some e | Ok _ => None end
    | OL (LReset v) => match v with VL _ => None | _ => Some EValue end
    | OD (DReset v) => match v with VD _ => None | _ => Some EValue end
    | _ => None
    end.

  Definition bstep_fn (s : bstate) (op : bop) : bstate * bres :=
    match op with
    | BNew oid f k =>
        let loc := b_nloc s in
        ({| b_files := b_files s; b_clock := b_clock s; b_writes := b_writes s;
            b_heap := nset loc (empty_of k) (b_heap s); b_nloc := S loc;
            b_objs := nset oid {| bo_file := f; bo_loc := loc; bo_buf := 0; bo_kind := k |} (b_objs s);
            b_buffer := b_buffer s; b_size := b_size s; b_cap := b_cap s; b_stack := b_stack s;
            b_ctx := b_ctx s; b_bcs := b_bcs s; b_forced := b_forced s |}, BOk vnone)
    | BExt f v => (write_disk_raw s f v, BOk vnone)
    | BOp oid p o =>
        let at_root := match p with [] => true | _ => false end in
        match pre_err o with Some e => (s, BErr e) | None =>
        if at_root && nop_no_load o then
          match apply_at p o (data_of s oid) with
          | None => (s, BBad)
          | Some (r, d') =>
              match r with
              | Err e => (s, BErr e)                      (* wrong type for reset: raised before anything *)
              | Ok _ =>
                  match save (set_data s oid d') oid with
                  | (s2, Some x) => (s2, BExn x)
                  | (s2, None) => (s2, res_of r)
                  end
              end
          end
        else
          (* __eq__ loads, then calls self(), which loads again *)
          let load2 (s0 : bstate) :=
            match o with
            | OL (LEq _) | OD (DEq _) =>
                match load s0 oid with
                | (s1, Some x) => (s1, Some x)
                | (s1, None) => load s1 oid
                end
            | _ => load s0 oid
            end in
          match load2 s with
          | (s1, Some x) => (s1, BExn x)
          | (s1, None) =>
              match apply_at p o (data_of s1 oid) with
              | None => (s1, BBad)
              | Some (r, d') =>
                  if nop_is_read o then (s1, res_of r)
                  else
                    match save (set_data s1 oid d') oid with
                    | (s2, Some x) => (s2, BExn x)
                    | (s2, None) => (s2, res_of r)
                    end
              end
          end
        end
    | BEnterObj oid => (set_buf s oid (S (bo_buf (get_obj s oid))), BOk vnone)
    | BExitObj oid =>
        let n := Nat.pred (bo_buf (get_obj s oid)) in
        let s1 := set_buf s oid n in
        if Nat.eqb n 0 then
          match flush_one s1 oid false with
          | (s2, Some x) => (s2, BExn x)
          | (s2, None) => (s2, BOk vnone)
          end
        else (s1, BOk vnone)
    | BEnterCls cap =>
        let s1 := upd_ctx s (S (b_ctx s)) in
        match cap with
        | None => (upd_stack s1 (None :: b_stack s1), BOk vnone)
        | Some c =>
            let s2 := upd_stack s1 (Some (b_cap s1) :: b_stack s1) in
            match set_capacity s2 c with
            | (s3, Some x) => (s3, BExn x)
            | (s3, None) => (s3, BOk vnone)
            end
        end
    | BExitCls =>
        let s1 := upd_ctx s (Nat.pred (b_ctx s)) in
        let '(s2, x1) := if Nat.eqb (b_ctx s1) 0 then flush_buffer s1 false else (s1, None) in
        let orig := match b_stack s2 with o :: _ => o | [] => None end in
        let s3 := upd_stack s2 (tl (b_stack s2)) in
        let '(s4, x2) := match orig with Some c => set_capacity s3 c | None => (s3, None) end in
        match x2, x1 with
        | Some x, _ => (s4, BExn x)
        | None, Some x => (s4, BExn x)
        | None, None => (s4, BOk vnone)
        end
    | BSetCap n =>
        match set_capacity s n with
        | (s1, Some x) => (s1, BExn x)
        | (s1, None) => (s1, BOk vnone)
        end
    end.
End WithParams.
