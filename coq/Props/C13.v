(* C13 — Buffered collections stay consistent under concurrent threads.  Property theorems only. *)
From Coq Require Import List Bool Arith.
From SC Require Import Model.Conc Proofs.ConcMutex Proofs.ConcFaults.
Import ListNotations.

(* inside a backend-wide buffered context every mutator of a buffered class holds the class-wide buffer lock
   for its WHOLE duration (it is the outermost lock of the operation), so the whole buffer state — entries,
   size, registered collections, files — is one component guarded by one lock, and C09's theorem applies
   with that single lock: every schedule equals a serial execution of the operations.  The sequential
   theorems about the buffer (C05, C07, C15) then apply to that serial execution. *)
Theorem C13_serial_outcome : forall (S R Lc : Type) (s0 : nat -> S) (ths : nat -> list (opd S R Lc)) (sched : list nat),
  let c := exec S R Lc (init_config S R Lc s0 ths) sched in
  quiescent S R Lc c ->
  (forall l, sh S R Lc c l = fst (serial S R Lc (log S R Lc c) s0) l)
  /\ (forall t, done S R Lc (thrs S R Lc c t) = mine R t (snd (serial S R Lc (log S R Lc c) s0))).
Proof. exact mutex_serializable. Qed.
Print Assumptions C13_serial_outcome.

(* the buffered mutators do hold the buffer lock around load, body and save (capacity-forced flushes
   included: they run inside the save), in every variant, under every fault assignment *)
Definition buffered_flavors := [FBufOff; FBufOn].
Theorem C13_buffer_lock_held :
  forallb (fun fl => forallb (fun v => well_locked (prog_of_op fl v KMutate) LBuf
                                        && well_locked (prog_of_op fl v KRootNoLoad) LBuf) all_variants) buffered_flavors = true.
Proof. vm_compute. reflexivity. Qed.
Print Assumptions C13_buffer_lock_held.

Theorem C13_well_locked_means : forall p l, well_locked p l = true ->
  forall faults, acts_under_lock (snd (sexec p faults held0)) held0 l T_VALIDATE = true.
Proof. exact well_locked_sound. Qed.
Print Assumptions C13_well_locked_means.

(* no buffer-related operation can deadlock against another (lock order), nor leave the buffer lock held *)
Theorem C13_no_deadlock_no_leak : forallb respects_order all_progs = true /\ forallb no_leak all_progs = true.
Proof. split; [exact table_respects_order|exact table_no_leak]. Qed.
Print Assumptions C13_no_deadlock_no_leak.
