(* BufferSimAux2.v — S4 (buffered operations defer their writes): the ghost counter of forced
   flushes never decreases, and while it stands still no file is written. *)
From Coq Require Import List ZArith NArith Bool Lia Arith.
From SC Require Import Model.Val Model.Plain Model.Ops Proofs.TreeDefs Proofs.TreeBase Model.Buffer Proofs.BufferDefs.
From SC Require Import Proofs.BufferSimAux1.
Import ListNotations.
Local Open Scope Z_scope.

Ltac prj :=
  cbn [b_files b_clock b_writes b_heap b_nloc b_objs b_buffer b_size b_cap b_stack b_ctx b_bcs b_forced
       upd_files upd_heap upd_objs upd_buffer upd_size upd_cap upd_stack upd_ctx upd_bcs fst snd] in *.

(* nothing is written, nobody enters or leaves a context *)
Definition quiet (s s' : bstate) : Prop :=
  b_files s' = b_files s /\ b_writes s' = b_writes s /\ b_forced s' = b_forced s /\ b_ctx s' = b_ctx s
  /\ forall x, bo_buf (get_obj s' x) = bo_buf (get_obj s x).

Lemma quiet_refl s : quiet s s.
Proof. unfold quiet. auto. Qed.
Lemma quiet_trans s1 s2 s3 : quiet s1 s2 -> quiet s2 s3 -> quiet s1 s3.
Proof.
  unfold quiet. intros (A1 & A2 & A3 & A4 & A5) (B1 & B2 & B3 & B4 & B5).
  split; [congruence|]. split; [congruence|]. split; [congruence|]. split; [congruence|].
  intros x. rewrite B5. apply A5.
Qed.
Lemma quiet_buffered s s' x : quiet s s' -> is_buffered s' x = is_buffered s x.
Proof. unfold quiet, is_buffered. intros (_ & _ & _ & A4 & A5). rewrite A4, A5. reflexivity. Qed.

Lemma quiet_objs s s' :
  b_files s' = b_files s -> b_writes s' = b_writes s -> b_forced s' = b_forced s -> b_ctx s' = b_ctx s ->
  b_objs s' = b_objs s -> quiet s s'.
Proof. unfold quiet, get_obj. intros -> -> -> -> ->. auto. Qed.

Lemma get_obj_set_loc s oid loc x :
  get_obj (set_loc s oid loc) x =
  if Nat.eqb x oid then {| bo_file := bo_file (get_obj s oid); bo_loc := loc; bo_buf := bo_buf (get_obj s oid);
                           bo_kind := bo_kind (get_obj s oid) |}
  else get_obj s x.
Proof.
  unfold set_loc. unfold get_obj at 1. prj. rewrite nlookup_nset. destruct (Nat.eqb x oid); reflexivity.
Qed.

Lemma get_obj_set_buf s oid n x :
  get_obj (set_buf s oid n) x =
  if Nat.eqb x oid then {| bo_file := bo_file (get_obj s oid); bo_loc := bo_loc (get_obj s oid); bo_buf := n;
                           bo_kind := bo_kind (get_obj s oid) |}
  else get_obj s x.
Proof.
  unfold set_buf. unfold get_obj at 1. prj. rewrite nlookup_nset. destruct (Nat.eqb x oid); reflexivity.
Qed.

Lemma quiet_set_loc s oid loc : quiet s (set_loc s oid loc).
Proof.
  unfold quiet. repeat split; try reflexivity. intros x. rewrite get_obj_set_loc.
  destruct (Nat.eqb x oid) eqn:E; [|reflexivity]. apply Nat.eqb_eq in E. subst. reflexivity.
Qed.

Lemma quiet_set_data s oid v : quiet s (set_data s oid v).
Proof. apply quiet_objs; reflexivity. Qed.
Lemma quiet_update_root s oid d : quiet s (update_root s oid d).
Proof. destruct d; [apply quiet_set_data|apply quiet_refl]. Qed.
Lemma quiet_register s oid : quiet s (register s oid).
Proof. unfold register. destruct (nmem oid (b_bcs s)); [apply quiet_refl|apply quiet_objs; reflexivity]. Qed.

Section Defer.

  Lemma quiet_init_entry strat blen s oid m : quiet s (init_entry strat blen s oid m).
  Proof. unfold init_entry. destruct strat; apply quiet_objs; reflexivity. Qed.

  Lemma quiet_load_base strat blen s oid : quiet s (load_from_buffer_base strat blen s oid).
  Proof.
    unfold load_from_buffer_base.
    destruct (nlookup (bo_file (get_obj s oid)) (b_buffer s)).
    - apply quiet_register.
    - eapply quiet_trans; [|apply quiet_register].
      eapply quiet_trans; [apply quiet_update_root|apply quiet_init_entry].
  Qed.

  Lemma flush_one_forced strat blen s oid force : b_forced (fst (flush_one strat blen s oid force)) = b_forced s.
  Proof.
    unfold flush_one.
    repeat match goal with
           | |- context [match ?x with _ => _ end] => destruct x
           end; reflexivity.
  Qed.

  Lemma flush_loop_forced strat blen todo : forall s force rem iss,
    b_forced (fst (fst (flush_loop strat blen todo s force rem iss))) = b_forced s.
  Proof.
    induction todo as [|oid todo IH]; intros s force rem iss; cbn [flush_loop]; [reflexivity|].
    destruct (is_buffered s oid && negb force); [apply IH|].
    pose proof (flush_one_forced strat blen s oid force) as H.
    destruct (flush_one strat blen s oid force) as [s1 x]. cbn [fst] in H.
    destruct x as [[f|fs]|]; rewrite IH; exact H.
  Qed.

  Lemma flush_buffer_forced strat blen s force : b_forced (fst (flush_buffer strat blen s force)) = b_forced s.
  Proof.
    unfold flush_buffer.
    pose proof (flush_loop_forced strat blen (rev (b_bcs s)) (upd_bcs s []) force [] []) as H.
    destruct (flush_loop strat blen (rev (b_bcs s)) (upd_bcs s []) force [] []) as [[s1 rem] iss].
    cbn [fst] in H. destruct iss; cbn [fst]; exact H.
  Qed.

  Lemma check_capacity_cases strat blen s :
    check_capacity strat blen s = (s, None)
    \/ b_forced (fst (check_capacity strat blen s)) = S (b_forced s).
  Proof.
    unfold check_capacity. destruct (b_cap s <? b_size s); [right|left; reflexivity].
    rewrite flush_buffer_forced. reflexivity.
  Qed.

  Lemma load_defers strat blen s oid :
    (b_forced s <= b_forced (fst (load strat blen s oid)))%nat
    /\ (is_buffered s oid = true -> b_forced (fst (load strat blen s oid)) = b_forced s ->
        quiet s (fst (load strat blen s oid))).
  Proof.
    unfold load. destruct (is_buffered s oid) eqn:Eb.
    - pose proof (quiet_load_base strat blen s oid) as Q. set (s1 := load_from_buffer_base strat blen s oid) in *.
      destruct strat.
      + destruct (check_capacity_cases Ser blen s1) as [C|C].
        * rewrite C. cbn [fst]. split.
          -- destruct Q as (_ & _ & Q3 & _). pose proof (quiet_update_root s1 oid
               (match nlookup (bo_file (get_obj s oid)) (b_buffer s1) with Some e => Some (e_val e) | None => None end)) as Q'.
             destruct Q' as (_ & _ & Q3' & _). lia.
          -- intros _ _. eapply quiet_trans; [exact Q|apply quiet_update_root].
        * destruct (check_capacity Ser blen s1) as [s2 [x|]]; cbn [fst] in *.
          -- destruct Q as (_ & _ & Q3 & _). split; [lia|intros _ H; lia].
          -- pose proof (quiet_update_root s2 oid
               (match nlookup (bo_file (get_obj s oid)) (b_buffer s1) with Some e => Some (e_val e) | None => None end)) as Q'.
             destruct Q' as (_ & _ & Q3' & _). destruct Q as (_ & _ & Q3 & _). split; [lia|intros _ H; lia].
      + destruct (nlookup (bo_file (get_obj s oid)) (b_buffer s1)) as [e|]; cbn [fst].
        * pose proof (quiet_trans _ _ _ Q (quiet_set_loc s1 oid (e_loc e))) as Q'.
          split; [destruct Q' as (_ & _ & Q3 & _); lia|intros _ _; exact Q'].
        * split; [destruct Q as (_ & _ & Q3 & _); lia|intros _ _; exact Q].
    - cbn [fst]. pose proof (quiet_update_root s oid (read_disk s (bo_file (get_obj s oid)))) as Q.
      split; [destruct Q as (_ & _ & Q3 & _); lia|intros H; discriminate H].
  Qed.

  Lemma save_defers strat blen s oid :
    (b_forced s <= b_forced (fst (save strat blen s oid)))%nat
    /\ (is_buffered s oid = true -> b_forced (fst (save strat blen s oid)) = b_forced s ->
        quiet s (fst (save strat blen s oid))).
  Proof.
    unfold save. destruct (is_buffered s oid) eqn:Eb.
    - unfold save_to_buffer.
      set (s0 := register s oid). pose proof (quiet_register s oid) as Q0. fold s0 in Q0.
      match goal with |- context [check_capacity strat blen ?x] => set (s1 := x) end.
      assert (Q1 : quiet s0 s1).
      { subst s1. destruct strat; destruct (nlookup (bo_file (get_obj s0 oid)) (b_buffer s0)) as [e|].
        - apply quiet_objs; reflexivity.
        - pose proof (quiet_init_entry Ser blen s0 oid false) as Q.
          destruct (nlookup (bo_file (get_obj s0 oid)) (b_buffer (init_entry Ser blen s0 oid false))).
          + eapply quiet_trans; [exact Q|apply quiet_objs; reflexivity].
          + exact Q.
        - assert (Q : quiet s0 (if Nat.eqb (e_loc e) (bo_loc (get_obj s0 oid)) then s0
                     else set_loc (upd_heap s0 (nset (e_loc e) (data_of s0 oid) (b_heap s0))) oid (e_loc e))).
          { destruct (Nat.eqb (e_loc e) (bo_loc (get_obj s0 oid))); [apply quiet_refl|].
            eapply quiet_trans; [|apply quiet_set_loc]. apply quiet_objs; reflexivity. }
          destruct (e_mod e); [exact Q|]. eapply quiet_trans; [exact Q|apply quiet_objs; reflexivity].
        - eapply quiet_trans; [apply (quiet_init_entry Shm blen s0 oid true)|apply quiet_objs; reflexivity]. }
      pose proof (quiet_trans _ _ _ Q0 Q1) as Q.
      destruct (check_capacity_cases strat blen s1) as [C|C].
      + rewrite C. cbn [fst]. split; [destruct Q as (_ & _ & Q3 & _); lia|intros _ _; exact Q].
      + destruct Q as (_ & _ & Q3 & _). split; [lia|intros _ H; lia].
    - cbn [fst]. split; [apply le_n|intros H; discriminate H].
  Qed.

  (* the shape of an operation step *)
  Definition load2 strat blen (o : nop) (s0 : bstate) (oid : nat) : bstate * option exn :=
    match o with
    | OL (LEq _) | OD (DEq _) =>
        match load strat blen s0 oid with
        | (s1, Some x) => (s1, Some x)
        | (s1, None) => load strat blen s1 oid
        end
    | _ => load strat blen s0 oid
    end.

  Lemma bop_unfold strat blen s oid p o :
    bstep_fn strat blen s (BOp oid p o) =
    match pre_err o with Some e => (s, BErr e) | None =>
      if (match p with [] => true | _ => false end) && nop_no_load o then
        match apply_at p o (data_of s oid) with
        | None => (s, BBad)
        | Some (r, d') =>
            match r with
            | Err e => (s, BErr e)
            | Ok _ =>
                match save strat blen (set_data s oid d') oid with
                | (s2, Some x) => (s2, BExn x)
                | (s2, None) => (s2, res_of r)
                end
            end
        end
      else
        match load2 strat blen o s oid with
        | (s1, Some x) => (s1, BExn x)
        | (s1, None) =>
            match apply_at p o (data_of s1 oid) with
            | None => (s1, BBad)
            | Some (r, d') =>
                if nop_is_read o then (s1, res_of r)
                else
                  match save strat blen (set_data s1 oid d') oid with
                  | (s2, Some x) => (s2, BExn x)
                  | (s2, None) => (s2, res_of r)
                  end
            end
        end
    end.
  Proof. reflexivity. Qed.

  Lemma load2_defers strat blen o s oid :
    is_buffered s oid = true ->
    (b_forced s <= b_forced (fst (load2 strat blen o s oid)))%nat
    /\ (b_forced (fst (load2 strat blen o s oid)) = b_forced s -> quiet s (fst (load2 strat blen o s oid))).
  Proof.
    intros Hb.
    assert (L1 : (b_forced s <= b_forced (fst (load strat blen s oid)))%nat
                 /\ (b_forced (fst (load strat blen s oid)) = b_forced s -> quiet s (fst (load strat blen s oid)))).
    { destruct (load_defers strat blen s oid) as [A B]. split; [exact A|intros H; apply B; [exact Hb|exact H]]. }
    assert (LL : (b_forced s <= b_forced (fst (match load strat blen s oid with
                      | (s1, Some x) => (s1, Some x)
                      | (s1, None) => load strat blen s1 oid
                      end)))%nat
                 /\ (b_forced (fst (match load strat blen s oid with
                      | (s1, Some x) => (s1, Some x)
                      | (s1, None) => load strat blen s1 oid
                      end)) = b_forced s -> quiet s (fst (match load strat blen s oid with
                      | (s1, Some x) => (s1, Some x)
                      | (s1, None) => load strat blen s1 oid
                      end)))).
    { destruct L1 as [A B]. destruct (load strat blen s oid) as [s1 [x|]]; cbn [fst] in *; [auto|].
      destruct (load_defers strat blen s1 oid) as [A' B']. split; [lia|]. intros H.
      assert (E1 : b_forced s1 = b_forced s) by lia.
      specialize (B E1). eapply quiet_trans; [exact B|]. apply B'.
      - rewrite (quiet_buffered _ _ _ B). exact Hb.
      - congruence. }
    unfold load2. destruct o as [[]|[]]; first [exact L1|exact LL].
  Qed.

  (* S4 *)
  Theorem buffered_op_defers strat blen s oid p o :
    is_buffered s oid = true ->
    let s' := fst (bstep_fn strat blen s (BOp oid p o)) in
    b_forced s' = b_forced s -> b_files s' = b_files s /\ b_writes s' = b_writes s.
  Proof.
    intros Hb. cbv zeta. rewrite bop_unfold.
    destruct (pre_err o); [cbn [fst]; auto|].
    destruct ((match p with [] => true | _ => false end) && nop_no_load o).
    - destruct (apply_at p o (data_of s oid)) as [[r d']|]; [|cbn [fst]; auto].
      destruct r as [v|e]; [|cbn [fst]; auto].
      pose proof (save_defers strat blen (set_data s oid d') oid) as [M Q].
      pose proof (quiet_set_data s oid d') as Q0.
      assert (G : b_forced (fst (save strat blen (set_data s oid d') oid)) = b_forced s ->
                  quiet s (fst (save strat blen (set_data s oid d') oid))).
      { intros H. eapply quiet_trans; [exact Q0|]. apply Q.
        - rewrite (quiet_buffered _ _ _ Q0). exact Hb.
        - destruct Q0 as (_ & _ & Q3 & _). congruence. }
      destruct (save strat blen (set_data s oid d') oid) as [s2 [x|]]; cbn [fst] in *;
        intros H; destruct (G H) as (Q1 & Q2 & _); auto.
    - destruct (load2_defers strat blen o s oid Hb) as [A B].
      destruct (load2 strat blen o s oid) as [s1 [x|]]; cbn [fst] in *.
      + intros H. destruct (B H) as (Q1 & Q2 & _). auto.
      + destruct (apply_at p o (data_of s1 oid)) as [[r d']|].
        2:{ cbn [fst]. intros H. destruct (B H) as (Q1 & Q2 & _). auto. }
        destruct (nop_is_read o).
        { cbn [fst]. intros H. destruct (B H) as (Q1 & Q2 & _). auto. }
        pose proof (save_defers strat blen (set_data s1 oid d') oid) as [M Q].
        pose proof (quiet_set_data s1 oid d') as Q0.
        assert (G : b_forced (fst (save strat blen (set_data s1 oid d') oid)) = b_forced s ->
                    quiet s (fst (save strat blen (set_data s1 oid d') oid))).
        { intros H. destruct Q0 as (Q01 & Q02 & Q03 & Q04 & Q05).
          assert (E1 : b_forced s1 = b_forced s) by lia.
          specialize (B E1). eapply quiet_trans; [exact B|].
          eapply quiet_trans; [apply quiet_set_data|]. apply Q.
          - rewrite (quiet_buffered _ _ _ (quiet_set_data s1 oid d')), (quiet_buffered _ _ _ B). exact Hb.
          - rewrite Q03. congruence. }
        destruct (save strat blen (set_data s1 oid d') oid) as [s2 [x|]]; cbn [fst] in *;
          intros H; destruct (G H) as (Q1 & Q2 & _); auto.
  Qed.
End Defer.
