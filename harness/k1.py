"""K1: sequential differential of Machine.v against the real classes, plus the
property oracles (IMPL <-> SPEC) evaluated on the same runs.

A *session* drives 1-3 collection objects bound to 1-2 resources of one backend
family through a seeded sequence of operations issued via roots and retained
nested handles, with out-of-band rewrites in between.  After every step it
records what the implementation did (result, which Python object was returned,
content of every resource read without the library, whether its stamp moved,
which handles are still attached).  The recorded session is (1) checked against
the model inside Coq (Corr/K1.v, vm_compute) and (2) checked directly against
the properties' own oracles on plain built-in data.
"""
import copy
import os
import shutil
import tempfile

from common import *
from gen import G, apply_lop, apply_dop, plainify

HEADER = ("From Coq Require Import List ZArith NArith.\n"
          "From SC Require Import Model.Val Model.Plain Model.Ops Model.Valid Model.Class Model.Tree Model.Machine.\n"
          "From SC Require Import Corr.KPlain Corr.K1 Gen.ClassTable.\n"
          "Import ListNotations.\n")

READS_L = {"LGet", "LGetSlice", "LLen", "LCall", "LIter", "LReversed", "LIndex", "LCount", "LContains", "LEq", "LCmp"}
READS_D = {"DGet", "DGetDefault", "DLen", "DCall", "DIter", "DKeys", "DValues", "DItems", "DContains", "DEq"}


def is_read(op):
    return op[0] in READS_L or op[0] in READS_D


def is_synced(x):
    return hasattr(x, "_to_base") and hasattr(x, "_load_and_save")


def is_attr_dict(o):
    from synced_collections.data_types.attr_dict import AttrDict
    return isinstance(o, AttrDict)


def raw_data(o):
    return object.__getattribute__(o, "_data")


def walk(o, path=()):
    """All synced nodes reachable from o (no loads), with their paths."""
    yield o, path
    data = raw_data(o)
    items = data.items() if isinstance(data, dict) else enumerate(data)
    for k, v in items:
        if is_synced(v):
            yield from walk(v, path + (k,))


def navigate(plain, path):
    """Follow path in plain data; returns (found, container)."""
    cur = plain
    for k in path:
        if isinstance(k, int) and not isinstance(k, bool):
            if not isinstance(cur, list) or not (0 <= k < len(cur)):
                return False, None
        else:
            if not isinstance(cur, dict) or k not in cur:
                return False, None
        cur = cur[k]
    return True, cur


def strict_eq(a, b):
    """Python equality plus the same JSON type at every leaf (dict order ignored)."""
    if isinstance(a, dict) or isinstance(b, dict):
        return (isinstance(a, dict) and isinstance(b, dict) and a.keys() == b.keys()
                and all(strict_eq(a[k], b[k]) for k in a))
    if isinstance(a, (list, tuple)) or isinstance(b, (list, tuple)):
        return (isinstance(a, (list, tuple)) and isinstance(b, (list, tuple)) and len(a) == len(b)
                and all(strict_eq(x, y) for x, y in zip(a, b)))
    return type(a) is type(b) and a == b


def canon_key(v):
    """A sort key that ignores dict key order (repr() does not) and keeps JSON types apart."""
    if isinstance(v, dict):
        return "{" + ",".join(sorted(repr(k) + ":" + canon_key(x) for k, x in v.items())) + "}"
    if isinstance(v, (list, tuple)):
        return "[" + ",".join(canon_key(x) for x in v) + "]"
    return type(v).__name__ + ":" + repr(v)


def forbidden_items(v, family_json_leaves, no_dots):
    """Forbidden items inside v according to the *property* (C11)."""
    out = []
    if isinstance(v, dict):
        for k, x in v.items():
            if not isinstance(k, str):
                out.append(("key", repr(k)))
            elif no_dots and "." in k:
                out.append(("dot", k))
            out += forbidden_items(x, family_json_leaves, no_dots)
    elif isinstance(v, (list, tuple)):
        for x in v:
            out += forbidden_items(x, family_json_leaves, no_dots)
    elif isinstance(v, (str, int, float, bool)) or v is None:
        pass
    elif isinstance(v, (bytes, bytearray)):
        pass
    elif family_json_leaves:
        out.append(("leaf", repr(v)))
    return out


class BufStore(Store):
    """The resource as a buffered collection sees it inside buffer_backend(): the buffer entry of the file (decoded) while
    there is one, else the file.  A 'write' is a call of _save_to_buffer for that file (counted by a class-level wrapper)."""
    saves = {}

    def __init__(self, ns, cls, tmpdir, name):
        super().__init__(ns, cls, tmpdir, name)
        if not getattr(cls, "_verif_counting", False):
            orig = cls._save_to_buffer

            def counted(self_, _orig=orig):
                BufStore.saves[self_._filename] = BufStore.saves.get(self_._filename, 0) + 1
                return _orig(self_)
            cls._save_to_buffer = counted
            cls._verif_counting = True

    def read(self):
        entry = self.cls._buffer.get(self.path)
        if entry is None:
            return super().read()
        c = entry["contents"]
        if isinstance(c, (bytes, bytearray)):
            return json.loads(c)

        def plain(o):
            if is_synced(o):
                o = raw_data(o)
            if isinstance(o, dict):
                return {k: plain(v) for k, v in o.items()}
            if isinstance(o, list):
                return [plain(v) for v in o]
            return o
        return plain(c)

    def stamp(self):
        return ("saves", BufStore.saves.get(self.path, 0))


class Session:
    def __init__(self, ns, rows, index, seed, root_cls, profile, tmpdir):
        self.ns, self.rows, self.index = ns, rows, index
        self.g = G(seed)
        self.seed = seed
        self.profile = profile
        self.tmpdir = tmpdir
        self.root_cls = root_cls
        self.cid = index[root_cls.__name__]
        row = rows[self.cid]
        self.kind = "dict" if row["kind"] == "KDict" else "list"
        self.family_json_leaves = any(v in ("VJsonFormat", "VJsonAttr") for v in row["validators"]) or row["backend_name"].endswith("collection_json")
        # attr families: any class of this backend is an attr dict
        self.no_dots = any(r["attr"] for r in rows if r["backend"] == row["backend"])
        self.stores = []
        self.objs = []            # (oid, pyobj, store index)
        self.labels = {}          # id(pyobj) -> label
        self.keep = []            # strong refs
        self.by_label = {}        # label -> pyobj
        self.owner = {}           # label -> oid
        self.steps = []           # coq kstep terms
        self.log = []             # human-readable
        self.oracle_failures = []
        self.stats = {}
        self.nlabels = 0
        self.history = {}

    # ---- labels
    def label_of(self, o, oid):
        k = id(o)
        if k not in self.labels:
            self.labels[k] = self.nlabels
            self.by_label[self.nlabels] = o
            self.owner[self.nlabels] = oid
            self.keep.append(o)
            self.nlabels += 1
        return self.labels[k]

    def live_labels(self):
        live = {}
        for oid, o, si in self.objs:
            nodes = walk(o)
            if self.profile.get("buffered"):
                # shared-memory strategy: between leaving a nested per-object context and its next load an object holds a
                # private copy; what it is attached to is the container in the buffer entry (its next load rebinds it)
                entry = type(o)._buffer.get(getattr(self.stores[si], "path", None))
                if entry is not None and isinstance(entry["contents"], (dict, list)) and entry["contents"] is not raw_data(o):
                    def walk_shared(data, path=()):
                        items = data.items() if isinstance(data, dict) else enumerate(data)
                        for k, v in items:
                            if is_synced(v):
                                yield from walk(v, path + (k,))
                    nodes = [(o, ())] + list(walk_shared(entry["contents"]))
            for n, path in nodes:
                if id(n) in self.labels:
                    live[self.labels[id(n)]] = (oid, path)
        return live

    # ---- observation
    def contents(self):
        return [st.read() for st in self.stores]

    def c_contents(self, contents):
        return "[" + ";".join(f"({i}%nat,{'None' if c is MISSING else '(Some ' + c_val(c) + ')'})"
                              for i, c in enumerate(contents)) + "]"

    def emit(self, kop, kexp, before_stamps, note, live_override=None):
        after = [st.stamp() for st in self.stores]
        wrote = [i for i, (a, b) in enumerate(zip(before_stamps, after)) if a != b]
        contents = self.contents()
        for i_, c_ in enumerate(contents):
            h_ = self.history.setdefault(i_, [])
            if c_ is not MISSING and (not h_ or h_[-1] != c_) and len(h_) < 12:
                h_.append(copy.deepcopy(c_))
        live = self.live_labels() if live_override is None else live_override
        term = ("{| k_op := %s; k_exp := %s; k_res := %s; k_wrote := [%s]; k_live := [%s] |}" % (
            kop, kexp, self.c_contents(contents), ";".join(f"{w}%nat" for w in wrote),
            ";".join(f"{l}%nat" for l in sorted(live))))
        self.steps.append(term)
        note = dict(note)
        note["after"] = jsonable([None if c is MISSING else c for c in contents])
        note["wrote"] = wrote
        self.log.append(note)
        return contents, wrote, live

    def count(self, k):
        self.stats[k] = self.stats.get(k, 0) + 1

    # ---- steps
    def new_store(self):
        st = (BufStore if self.profile.get("buffered") else Store)(self.ns, self.root_cls, self.tmpdir, f"s{self.seed}_{len(self.stores)}")
        self.stores.append(st)
        return len(self.stores) - 1

    def step_new(self, si, data=None):
        oid = len(self.objs)
        st = self.stores[si]
        before = [s.stamp() for s in self.stores]
        try:
            o = st.make() if data is None else st.make(data=copy.deepcopy(data))
        except Exception as e:  # noqa
            kexp = f"(KVal (Err {err_class(e)}) None)"
            dterm = "None" if data is None else f"(Some {c_val(data)})"
            self.emit(f"(KNew {oid} {self.cid} {si} {dterm} {self.nlabels})", kexp, before,
                      {"op": "new", "data": jsonable(data), "err": err_class(e)})
            bad = forbidden_items(data, self.family_json_leaves, self.no_dots)
            if not bad:
                self.oracle_failures.append({"oracle": "C12-accept", "step": len(self.log) - 1,
                                             "detail": f"constructor rejected valid data with {type(e).__name__}"})
            return None
        self.objs.append((oid, o, si))
        lbl = self.label_of(o, oid)
        dterm = "None" if data is None else f"(Some {c_val(data)})"
        self.emit(f"(KNew {oid} {self.cid} {si} {dterm} {lbl})", f"(KVal (Ok (VS SNull)) (Some {lbl}))", before,
                  {"op": "new", "oid": oid, "store": si, "data": jsonable(data)})
        if data is not None:
            self.check_clean(len(self.log) - 1)
        self.count("new")
        return oid

    def same_size_variant(self, cur):
        """Another JSON value whose encoding has exactly the same length (one digit / letter / literal changed)."""
        cur = copy.deepcopy(cur)
        spots = []

        def rec(v, parent, k):
            if isinstance(v, dict):
                for kk, x in v.items():
                    rec(x, v, kk)
            elif isinstance(v, list):
                for i, x in enumerate(v):
                    rec(x, v, i)
            elif parent is not None:
                if type(v) is int and 0 <= v <= 8:
                    spots.append((parent, k, v + 1))
                elif v is True:
                    spots.append((parent, k, None))
                elif v is None:
                    spots.append((parent, k, True))
                elif v in ("a", "b"):
                    spots.append((parent, k, "b" if v == "a" else "a"))
        rec(cur, None, None)
        if not spots:
            return None
        parent, k, nv = self.g.r.choice(spots)
        parent[k] = nv
        return cur

    def step_ext(self, si, value):
        st_ = self.stores[si]
        if (st_.family == "json" and not self.profile.get("buffered") and self.g.r.random() < self.profile.get("stealth", 0.25)
                and st_.read() is not MISSING):
            # an outside writer that leaves the file's size and timestamps as they were
            variant = self.same_size_variant(st_.read())
            if variant is not None and len(json.dumps(variant)) == len(json.dumps(st_.read())):
                st_.write(variant, stealth=True)
                before = [s.stamp() for s in self.stores]   # out-of-band writes are not library writes
                self.emit(f"(KExt {si} (Some {c_val(variant)}))", "KAny", before, {"op": "ext-same-size-and-mtime", "store": si, "value": jsonable(variant)})
                self.count("ext-stealth")
                return
        before = [s.stamp() for s in self.stores]
        self.stores[si].write(copy.deepcopy(value))
        before = [s.stamp() for s in self.stores]   # out-of-band writes are not library writes
        self.emit(f"(KExt {si} (Some {c_val(value)}))", "KAny", before, {"op": "ext", "store": si, "value": jsonable(value)})
        self.count("ext")

    def step_ext_remove(self, si):
        """Out-of-band removal of the resource."""
        if self.stores[si].read() is MISSING:
            return
        self.stores[si].remove()
        before = [s.stamp() for s in self.stores]
        self.emit(f"(KExt {si} None)", "KAny", before, {"op": "ext-remove", "store": si})
        self.count("ext-remove")

    def step_op(self, lbl, op):
        h = self.by_label[lbl]
        set_current(lambda: {"harness": "K1", "class": self.root_cls.__name__, "seed": self.seed, "pending_op": jsonable(op),
                             "steps_so_far": getattr(self, "log", None)})
        oid = self.owner[lbl]
        si = self.objs[oid][2]
        live = self.live_labels()
        attached = lbl in live
        path = live[lbl][1] if attached else None
        is_list = isinstance(raw_data(h), list)
        pre = self.stores[si].read()
        # a missing resource has no content of its own: the object's in-memory data stands for it
        self.mem_before = copy.deepcopy(self.objs[oid][1]._to_base())
        before = [s.stamp() for s in self.stores]
        returned = {}

        labelled = op[0] in ("LGet", "DGet", "DGetDefault", "DSetdefault")

        def conv(x):
            if is_synced(x):
                if labelled:
                    returned["lbl"] = self.label_of(x, oid)
                return x._to_base()
            return x

        opc = copy.deepcopy(op)
        # attribute syntax for the attribute-access dict families, for every key C18 says it covers
        use_attr = (not is_list and op[0] in ("DGet", "DSet", "DDel") and isinstance(op[1], str)
                    and is_attr_dict(h) and op[1] not in type(h)._PROTECTED_KEYS
                    and not op[1].startswith("__") and not hasattr(type(h), op[1]) and self.g.r.random() < 0.5)
        form = "mapping"
        if op[0] == "DUpdate" and isinstance(op[1], dict):
            form = self.g.r.choice(["mapping", "mapping", "pairs", "pairs", "iterator", "kwargs"])
            if form == "kwargs" and not all(isinstance(k_, str) for k_ in op[1]):
                form = "pairs"
            self.count("update-" + form)
        try:
            if use_attr:
                self.count("attr-syntax")
                try:
                    if op[0] == "DGet":
                        r = conv(getattr(h, op[1]))
                    elif op[0] == "DSet":
                        r = setattr(h, op[1], opc[2])
                    else:
                        r = delattr(h, op[1])
                except AttributeError as e:
                    raise KeyError(str(e))          # C18: a missing key is an AttributeError in attribute syntax
            elif op[0] == "DUpdate" and isinstance(opc[1], dict) and form != "mapping":
                # the other call forms of update(): an iterable of pairs, an iterator, keyword arguments
                if form == "kwargs":
                    r = h.update(**opc[1])
                elif form == "pairs":
                    r = h.update([(k_, v_) for k_, v_ in opc[1].items()])
                else:
                    r = h.update(iter([[k_, v_] for k_, v_ in opc[1].items()]))
            else:
                r = apply_lop(h, opc, conv) if is_list else apply_dop(h, opc, conv)
            r = copy.deepcopy(r)
            res = ("ok", r)
        except Exception as e:  # noqa
            res = ("err", err_class(e), type(e).__name__)
        nop = f"(OL {c_lop(op)})" if is_list else f"(OD {c_dop(op)})"
        if not attached:
            kop = f"(KTouch {oid} {'false' if is_read(op) else 'true'})"
            kexp = "KAny"
            after_st = [s.stamp() for s in self.stores]
            if not is_read(op) and res[0] == "err" and after_st == before:
                # raised before entering the load-and-save context: nothing happened at all
                self.count("detached-noop")
                return res
        else:
            kop = f"(KOp {oid} {lbl} {nop})"
            if res[0] == "ok":
                try:
                    kexp = f"(KVal (Ok {c_val(res[1])}) {c_optn(returned.get('lbl'))})"
                except ValueError:
                    kexp = "KAny"
            else:
                kexp = f"(KVal (Err {res[1]}) None)"
        note = {"op": jsonable(op), "via": lbl, "oid": oid, "path": jsonable(path), "attached": attached,
                "result": jsonable(res), "returned_label": returned.get("lbl")}
        if use_attr:
            note["syntax"] = "attribute"
        if form != "mapping":
            note["call_form"] = form
        contents, wrote, live_after = self.emit(kop, kexp, before, note)
        self.count(op[0] + ("" if res[0] == "ok" else "!" + res[1]))
        self.count(f"depth{len(path)}" if attached else "detached")
        self.oracle(op, is_list, lbl, oid, si, attached, path, pre, res, contents, wrote, live_after)
        return res


    def step_cmp_synced(self, lbl, op, l2):
        """`h <cmp> h2` with a SYNCED right operand.  Emitted as two model steps: h2() (the comparison must load the
        operand: what h2 holds afterwards is the observed result) and the comparison of h with that plain value."""
        h, h2 = self.by_label[lbl], self.by_label[l2]
        oid, oid2 = self.owner[lbl], self.owner[l2]
        si, si2 = self.objs[oid][2], self.objs[oid2][2]
        live = self.live_labels()
        path, path2 = live[lbl][1], live[l2][1]
        is_list = isinstance(raw_data(h), list)
        set_current(lambda: {"harness": "K1", "class": self.root_cls.__name__, "seed": self.seed, "pending_op": [op[0], "synced operand", l2],
                             "steps_so_far": self.log})
        pre = self.stores[si].read()
        pre2 = self.stores[si2].read()
        self.mem_before = copy.deepcopy(self.objs[oid][1]._to_base())
        mem2 = copy.deepcopy(self.objs[oid2][1]._to_base())
        before = [s.stamp() for s in self.stores]
        try:
            if op[0] in ("LEq", "DEq"):
                res = ("ok", h == h2)
            else:
                res = ("ok", {"<": h.__lt__, "<=": h.__le__, ">": h.__gt__, ">=": h.__ge__}[op[1]](h2))
        except Exception as e:  # noqa
            res = ("err", err_class(e), type(e).__name__)
        held2 = copy.deepcopy(h2._to_base())           # no load: what the operand holds after the comparison
        call = "(OL LCall)" if is_list else "(OD DCall)"
        try:
            c_held2 = c_val(held2)
        except ValueError:
            return res
        # Python evaluates `self() <cmp> other()`: the left object loads first (which may detach the operand handle)
        op2 = (op[0], held2) if op[0] in ("LEq", "DEq") else (op[0], op[1], held2)
        nop = f"(OL {c_lop(op2)})" if is_list else f"(OD {c_dop(op2)})"
        try:
            kexp = f"(KVal (Ok {c_val(res[1])}) None)" if res[0] == "ok" else f"(KVal (Err {res[1]}) None)"
        except ValueError:
            kexp = "KAny"
        # after the first model step only the left object has loaded: handles of other objects are as before
        now = self.live_labels()
        live_a = {l: v for l, v in live.items() if self.owner[l] != oid}
        live_a.update({l: v for l, v in now.items() if self.owner[l] == oid})
        contents, wrote, _ = self.emit(f"(KOp {oid} {lbl} {nop})", kexp, before,
                                       {"op": jsonable(op2), "synced_operand": l2, "via": lbl, "oid": oid, "path": jsonable(path),
                                        "attached": True, "result": jsonable(res)}, live_override=live_a)
        live_after = now
        if l2 in live_after:
            self.emit(f"(KOp {oid2} {l2} {call})", f"(KVal (Ok {c_held2}) None)", before,
                      {"op": ["operand-load", op[0]], "via": l2, "oid": oid2, "path": jsonable(path2), "attached": True, "result": jsonable(held2)})
        else:
            self.emit(f"(KTouch {oid2} false)", "KAny", before,
                      {"op": ["operand-load", op[0]], "via": l2, "oid": oid2, "attached": False, "result": jsonable(held2)})
        self.count(op[0] + "-synced")
        # oracle: the comparison must be the comparison of the two positions' CURRENT backend contents
        cur2 = copy.deepcopy(mem2) if pre2 is MISSING else copy.deepcopy(pre2)
        found2, truth2 = navigate(cur2, path2)
        if found2 and isinstance(truth2, list) == is_list and isinstance(truth2, (list, dict)):
            opt = (op[0], truth2) if op[0] in ("LEq", "DEq") else (op[0], op[1], truth2)
            self.oracle(opt, is_list, lbl, oid, si, True, path, pre, res, contents, wrote, live_after)
        return res

    # ---- IMPL <-> SPEC oracles
    def fail(self, oracle, detail):
        self.oracle_failures.append({"oracle": oracle, "step": len(self.log) - 1, "detail": detail})

    def check_clean(self, step):
        for oid, o, si in self.objs:
            bad = forbidden_items(o._to_base(), self.family_json_leaves, self.no_dots)
            if bad:
                self.oracle_failures.append({"oracle": "C11-memory", "step": step, "detail": f"object {oid} holds {bad}"})
        for i, st in enumerate(self.stores):
            c = st.read()
            if c is not MISSING:
                bad = forbidden_items(c, self.family_json_leaves, self.no_dots)
                if bad:
                    self.oracle_failures.append({"oracle": "C11-backend", "step": step, "detail": f"store {i} holds {bad}"})

    def oracle(self, op, is_list, lbl, oid, si, attached, path, pre, res, contents, wrote, live_after):
        post = contents[si]
        # C17: reading never writes, never creates
        if is_read(op) and wrote:
            self.fail("C17", f"read {op[0]} moved the stamp of stores {wrote}")
        # C11: forbidden data never gets in
        if not self.ext_invalid:
            self.check_clean(len(self.log) - 1)
        if not attached:
            return
        root_kind_ok = True
        base = self.mem_before
        cur = copy.deepcopy(base) if pre is MISSING else copy.deepcopy(pre)
        found, target = navigate(cur, path)
        if not found or isinstance(target, list) != is_list or not isinstance(target, (list, dict)):
            return   # the position no longer holds a container of this kind: handle is detached by the load
        at_root = len(path) == 0
        # argument validity according to the property
        args = [a for a in op[1:] if not isinstance(a, slice)]
        bad = []
        for a in args:
            if op[0] in ("DSet", "DSetdefault", "DGet", "DDel", "DPop", "DContains", "DGetDefault") and a is op[1]:
                if not is_read(op) and op[0] in ("DSet", "DSetdefault"):
                    bad += forbidden_items({a: None}, self.family_json_leaves, self.no_dots)
                continue
            if not is_read(op) and op[0] not in ("LRemove", "LDel", "LPop", "LInsert") or op[0] == "LInsert" and a is op[2]:
                bad += forbidden_items(a, self.family_json_leaves, self.no_dots)
        if op[0] == "LInsert":
            bad = forbidden_items(op[2], self.family_json_leaves, self.no_dots)
        if op[0] == "DSetdefault" and op[1] in target:
            bad = []     # key present: nothing is stored
        if bad:
            single = op[0] in ("DSet", "DSetdefault", "LSet", "LInsert", "LAppend")
            if res[0] == "ok":
                self.fail("C11-accepted", f"{op[0]} accepted forbidden {bad}")
            elif res[1] not in ("EType", "EValue", "EKeyType", "EInvalidKey"):
                self.fail("C11-errclass", f"{op[0]} raised {res[2]} for forbidden data")
            if single and not strict_eq(base if pre is MISSING else pre, base if post is MISSING else post):
                self.fail("C11-frame", f"rejected {op[0]} changed the backend")
            return
        # plain expectation
        shadow = cur
        _, tgt = navigate(shadow, path)
        if op[0] == "DPopitem":
            # which item is popped depends on key order, which is unspecified after merges
            if res[0] == "ok":
                k, v = res[1]
                if k not in tgt or not strict_eq(tgt[k], v):
                    self.fail("C03-result", f"popitem returned {jsonable(res[1])} which is not an item of {jsonable(tgt)}")
                    return
                del tgt[k]
                if post is MISSING or not strict_eq(post, shadow):
                    self.fail("C01/C04", f"popitem: backend {jsonable(post)} expected {jsonable(shadow)}")
            elif tgt:
                self.fail("C03-result", f"popitem raised {res[2]} on non-empty {jsonable(tgt)}")
            return
        try:
            exp = ("ok", copy.deepcopy(apply_lop(tgt, copy.deepcopy(op)) if is_list else apply_dop(tgt, copy.deepcopy(op))))
        except Exception as e:  # noqa
            exp = ("err", err_class(e))
        if op[0] in ("LCmp",) and exp[0] == "ok" and exp[1] is NotImplemented:
            return
        # results
        if res[0] != exp[0] or (res[0] == "err" and res[1] != exp[1]):
            if not (res[0] == "err" and exp[0] == "err" and {res[1], exp[1]} <= {"EType", "EValue"}):
                self.fail("C03-result", f"{op[0]}: impl {jsonable(res)} vs built-in {jsonable(exp)}")
        elif res[0] == "ok" and op[0] in ("DIter", "DKeys", "DValues", "DItems"):
            if not strict_eq(sorted(res[1], key=canon_key), sorted(exp[1], key=canon_key)):
                self.fail("C02-read", f"{op[0]}: impl returned {jsonable(res[1])}, built-in {jsonable(exp[1])}")
        elif res[0] == "ok" and not strict_eq(res[1], exp[1]):
            self.fail("C02-read" if is_read(op) else "C03-result", f"{op[0]}: impl returned {jsonable(res[1])}, built-in {jsonable(exp[1])}")
        # content
        if is_read(op):
            if not strict_eq_missing(pre, post):
                self.fail("C17", f"read {op[0]} changed the backend content")
        else:
            if post is MISSING:
                if res[0] == "ok" or pre is not MISSING:
                    self.fail("C01", f"{op[0]} returned but the resource does not exist")
            elif not strict_eq(post, shadow):
                self.fail("C01/C04", f"{op[0]} via label {lbl} at {path}: backend {jsonable(post)} expected {jsonable(shadow)}")
            if exp[0] == "err" and exp[1] in ("EKey", "EIndex", "EValue") and pre is not MISSING and not strict_eq(pre, post):
                self.fail("C03-frame", f"failing {op[0]} changed the backend")

    # ---- driver
    def run(self, nsteps):
        if self.profile.get("buffered"):
            cls = self.root_cls
            try:
                with cls.buffer_backend():
                    self.run_inner(nsteps)
                # C05: at the outermost exit every file holds exactly the final logical content
                for oid, o, si in self.objs:
                    disk = Store.read(self.stores[si])
                    mem = o._to_base()
                    if disk is not MISSING and not strict_eq(disk, mem):
                        self.fail("C05-final", f"after buffer_backend() exited the file holds {jsonable(disk)}, the collection {jsonable(mem)}")
            finally:
                reset_buffer_class(cls)
            return
        self.run_inner(nsteps)

    def run_inner(self, nsteps):
        p = self.profile
        self.ext_invalid = False
        nres = p.get("resources", 1)
        for _ in range(nres):
            self.new_store()
        nobj = p.get("objects", 1)
        for i in range(nobj):
            si = i % nres
            if p.get("init") and i < nres:
                self.step_ext(si, self.g.container(self.kind, 2))
            data = None
            if p.get("ctor_data") and self.g.r.random() < p["ctor_data"]:
                data = self.g.container(self.kind, 2)
                if self.g.r.random() < p.get("invalid", 0):
                    bv, _ = self.g.bad_value(self.bad_kinds())
                    if self.kind == "list":
                        data.append(bv)
                    else:
                        data["zz"] = bv
            self.step_new(si, data)
        if not self.objs:
            return
        for _ in range(nsteps):
            r = self.g.r.random()
            if p.get("buffered") and self.g.r.random() < p.get("blip", 0) and self.objs:
                # a nested per-object context that is entered and left: transparent (no model step, nothing to compare)
                o_ = self.g.r.choice(self.objs)[1]
                with o_.buffered:
                    if self.g.r.random() < 0.5:
                        o_()
                self.count("blip")
                self.after_blip = True
            live = self.live_labels()
            if r < p.get("ext", 0):
                si = self.g.r.randrange(len(self.stores))
                if self.g.r.random() < p.get("ext_remove", 0):
                    self.step_ext_remove(si)
                else:
                    self.step_ext(si, self.ext_value(si))
                continue
            if r < p.get("ext", 0) + p.get("newobj", 0) and len(self.objs) < 4:
                self.step_new(self.g.r.randrange(len(self.stores)))
                continue
            # choose a handle: prefer deep / retained ones
            cands = list(live)
            dead = [l for l in self.by_label if l not in live]
            if dead and self.g.r.random() < p.get("detached", 0.03):
                lbl = self.g.r.choice(dead)
            else:
                deep = [l for l in cands if len(live[l][1]) > 0]
                if deep and self.g.r.random() < p.get("deep", 0.6):
                    lbl = self.g.r.choice(deep)
                else:
                    lbl = self.g.r.choice(cands)
            forced_root_op = False
            if getattr(self, "after_blip", False):
                self.after_blip = False
                roots = [l for l in cands if len(live[l][1]) == 0]
                if roots and self.g.r.random() < 0.6:
                    lbl = self.g.r.choice(roots)         # right after a nested context: an operation on the root that does not load
                    forced_root_op = True
            h = self.by_label[lbl]
            data = raw_data(h)
            plain = h._to_base()
            want_read = self.g.r.random() < p.get("reads", 0.35)
            if isinstance(data, list):
                op = self.g.list_read(plain) if want_read else self.g.list_mut(plain, p.get("vdepth", 2))
            else:
                op = self.g.dict_read(plain) if want_read else self.g.dict_mut(plain, p.get("vdepth", 2))
            if forced_root_op:
                keep = copy.deepcopy(plain)
                if isinstance(data, list):
                    op = ("LClear",) if self.g.r.random() < 0.3 else ("LReset", keep + [self.g.scalar(True)])
                else:
                    keep[self.g.key()] = self.g.scalar(True)
                    op = ("DClear",) if self.g.r.random() < 0.3 else ("DReset", keep)
                self.count("root-op-after-blip")
            if not isinstance(data, list) and is_attr_dict(h) and op[0] in ("DSet", "DGet", "DDel") and self.g.r.random() < 0.2:
                op = (op[0], "_p") + tuple(op[2:])        # a key with a leading underscore that is not a protected name
            if not want_read and self.g.r.random() < p.get("invalid", 0):
                op = self.inject_invalid(op)
            if self.g.r.random() < p.get("retype", 0.08):
                from gen import retype
                rt, rp = retype(plain, self.g.r)
                if rt is not None and rp:
                    if isinstance(data, list):
                        op = ("LReset", rt) if self.g.r.random() < 0.6 else ("LSet", rp[0], rt[rp[0]])
                    else:
                        r3 = self.g.r.random()
                        op = ("DReset", rt) if r3 < 0.35 else (("DUpdate", {rp[0]: rt[rp[0]]}) if r3 < 0.8 else ("DSet", rp[0], rt[rp[0]]))
                    self.count("retype")
            if p.get("no_root_clear") and lbl in live and len(live[lbl][1]) == 0 and op[0] in ("LClear", "DClear"):
                continue
            try:
                c_lop(op) if isinstance(data, list) else c_dop(op)
            except ValueError:
                continue
            if op[0] in ("LEq", "DEq", "LCmp") and lbl in live and self.g.r.random() < p.get("synced_cmp", 0.4):
                others = [l for l in live if l != lbl and isinstance(raw_data(self.by_label[l]), list) == isinstance(data, list)
                          and type(self.by_label[l]) is type(h)]
                if others:
                    self.step_cmp_synced(lbl, op, self.g.r.choice(others))
                    continue
            self.step_op(lbl, op)
            # navigate to children so that handles get retained
            if self.g.r.random() < p.get("navigate", 0.5):
                self.navigate_some()

    def bad_kinds(self):
        return ("leaf", "key", "dot") if self.no_dots else ("leaf", "key")

    def inject_invalid(self, op):
        bv, _ = self.g.bad_value(self.bad_kinds())
        n = op[0]
        if n in ("LSet", "LInsert"):
            return (n, op[1], bv)
        if n in ("LAppend",):
            return (n, bv)
        if n in ("LExtend", "LIAdd", "LReset"):
            v = list(op[1]) if isinstance(op[1], list) else []
            v.insert(self.g.r.randrange(len(v) + 1), bv)
            return (n, v)
        if n == "LSetSlice":
            v = list(op[2]) if isinstance(op[2], list) else []
            v.insert(self.g.r.randrange(len(v) + 1), bv)
            return (n, op[1], v)
        if n in ("DSet", "DSetdefault"):
            if self.g.r.random() < 0.25:
                from gen import DOT_KEYS
                k = self.g.r.choice(list(BAD_KEYS.values()) + (DOT_KEYS if self.no_dots else []))
                return (n, k, op[2])
            return (n, op[1], bv)
        if n in ("DUpdate", "DReset"):
            v = dict(op[1]) if isinstance(op[1], dict) else {}
            if self.g.r.random() < 0.35:
                from gen import DOT_KEYS
                v[self.g.r.choice(list(BAD_KEYS.values()) + (DOT_KEYS if self.no_dots else []))] = self.g.scalar(True)   # forbidden top-level key
            else:
                v[self.g.r.choice(["zz", "a"])] = bv
            return (n, v)
        return op

    def ext_value(self, si):
        """Out-of-band rewrite: mutate the current content at a random position, any kind -> any kind."""
        cur = self.stores[si].read()
        hist = self.history.setdefault(si, [])
        if cur is not MISSING and (not hist or hist[-1] != cur):
            hist.append(copy.deepcopy(cur))
        if len(hist) > 1 and self.g.r.random() < 0.2:
            self.count("ext-restore")
            return copy.deepcopy(self.g.r.choice(hist[:-1]))      # put an earlier content back, byte for byte
        if cur is MISSING or self.g.r.random() < 0.15:
            return self.g.container(self.kind, 3)
        cur = copy.deepcopy(cur)
        # pick a random position
        paths = [()]

        def rec(v, p):
            if isinstance(v, dict):
                for k, x in v.items():
                    paths.append(p + (k,))
                    rec(x, p + (k,))
            elif isinstance(v, list):
                for i, x in enumerate(v):
                    paths.append(p + (i,))
                    rec(x, p + (i,))
        rec(cur, ())
        p = self.g.r.choice(paths)
        if not p:
            # change the root's entries
            if isinstance(cur, list):
                r = self.g.r.random()
                if r < 0.3 and cur:
                    cur.pop(self.g.r.randrange(len(cur)))
                elif r < 0.6:
                    cur.insert(self.g.r.randrange(len(cur) + 1), self.g.value(2))
                else:
                    cur.append(self.g.value(2))
            else:
                r = self.g.r.random()
                if r < 0.3 and cur:
                    del cur[self.g.r.choice(list(cur))]
                else:
                    cur[self.g.key()] = self.g.value(2)
            return cur
        parent = cur
        for k in p[:-1]:
            parent = parent[k]
        old = parent[p[-1]]
        r = self.g.r.random()
        if r < 0.2:
            new = None
        elif r < 0.4:
            new = self.g.scalar()
        elif r < 0.55:
            # type-only change (True <-> 1 <-> 1.0)
            from gen import retype_leaf
            new = retype_leaf(old)
            if new is None:
                new = self.g.scalar()
        elif r < 0.7:
            new = self.g.vlist(2)
        elif r < 0.85:
            new = self.g.vdict(2)
        else:
            # same kind, modified content
            new = copy.deepcopy(old)
            if isinstance(new, list):
                new.append(self.g.value(1))
            elif isinstance(new, dict):
                new[self.g.key()] = self.g.value(1)
            else:
                new = self.g.scalar()
        parent[p[-1]] = new
        return cur

    def navigate_some(self):
        """Retain child handles: read a random container child through a random attached handle."""
        live = self.live_labels()
        lbl = self.g.r.choice(list(live))
        h = self.by_label[lbl]
        data = raw_data(h)
        if isinstance(data, list):
            idx = [i for i, v in enumerate(data) if is_synced(v)]
            if idx:
                self.step_op(lbl, ("LGet", self.g.r.choice(idx)))
        else:
            ks = [k for k, v in data.items() if is_synced(v)]
            if ks:
                self.step_op(lbl, ("DGet", self.g.r.choice(ks)))

    def coq_case(self):
        return "[" + ";\n ".join(self.steps) + "]"


def strict_eq_missing(a, b):
    if a is MISSING or b is MISSING:
        return a is b
    return strict_eq(a, b)


def c_optn(x):
    return "None" if x is None else f"(Some {x}%nat)"


PROFILES = {
    "C01": {"objects": 1, "resources": 1, "reads": 0.15, "deep": 0.65, "navigate": 0.6},
    "C02": {"objects": 2, "resources": 1, "reads": 0.6, "ext": 0.25, "ext_remove": 0.12, "deep": 0.7, "navigate": 0.6, "init": True, "vdepth": 3},
    "C03": {"objects": 1, "resources": 1, "reads": 0.45, "deep": 0.4, "navigate": 0.4},
    "C03b": {"objects": 2, "resources": 1, "reads": 0.5, "ext": 0.08, "newobj": 0.06, "deep": 0.5, "navigate": 0.5, "init": True, "synced_cmp": 0.6},
    "C05k1": {"objects": 1, "resources": 1, "reads": 0.3, "deep": 0.6, "navigate": 0.7, "init": True, "buffered": True, "blip": 0.12,
              "detached": 0.0, "synced_cmp": 0.3},
    "C04": {"objects": 3, "resources": 1, "reads": 0.2, "ext": 0.08, "stealth": 0.6, "deep": 0.7, "navigate": 0.7, "init": True, "newobj": 0.03},
    "C11": {"objects": 1, "resources": 1, "reads": 0.1, "deep": 0.6, "navigate": 0.5, "invalid": 0.5, "ctor_data": 0.7},
    "C12": {"objects": 1, "resources": 1, "reads": 0.2, "deep": 0.5, "navigate": 0.5, "vdepth": 4, "ctor_data": 0.3},
    "C17": {"objects": 2, "resources": 2, "reads": 0.85, "deep": 0.5, "navigate": 0.5, "ext": 0.12, "ext_remove": 0.35, "init": True, "ctor_data": 0.3},
    "MIX": {"objects": 2, "resources": 2, "reads": 0.3, "ext": 0.1, "ext_remove": 0.1, "newobj": 0.03, "deep": 0.6, "navigate": 0.5, "invalid": 0.1, "detached": 0.05},
}


def run_sessions(profile_name, seed, nsessions, nsteps, classes=None, tmproot=None):
    """Run sessions; returns dict with cases (coq), logs, oracle failures, stats."""
    import gen_tables
    ns = import_library()
    rows, index = gen_tables.generate()
    classes = classes or ns.all_classes
    tmp = tempfile.mkdtemp(prefix="verif_k1_", dir=tmproot)
    out = {"cases": [], "logs": [], "oracle": [], "stats": {}, "classes": {}, "meta": []}
    try:
        for i in range(nsessions):
            cls = classes[(seed + i) % len(classes)]
            s = Session(ns, rows, index, seed * 100003 + i, cls, PROFILES[profile_name], tmp)
            try:
                s.run(nsteps)
            except Exception as e:  # harness error: surface it, do not hide
                import traceback
                s.oracle_failures.append({"oracle": "harness", "step": len(s.log), "detail": traceback.format_exc()[-1500:]})
            out["cases"].append(s.coq_case())
            out["logs"].append(s.log)
            out["meta"].append({"session": i, "class": cls.__name__, "seed": s.seed})
            for f in s.oracle_failures:
                f = dict(f)
                f.update(session=i, cls=cls.__name__, seed=s.seed)
                out["oracle"].append(f)
            for k, v in s.stats.items():
                out["stats"][k] = out["stats"].get(k, 0) + v
            out["classes"][cls.__name__] = out["classes"].get(cls.__name__, 0) + 1
    finally:
        shutil.rmtree(tmp, ignore_errors=True)
    return out


def check_against_model(out):
    """Evaluate the recorded sessions in Coq. Returns list of (session index, diag text)."""
    bad = run_case_files(HEADER, "(list kstep)", "(check_case class_table)", out["cases"], shard=40)
    diags = []
    for b in bad[:3]:
        txt = coq_eval(HEADER, f"diag_case class_table {out['cases'][b]}")
        diags.append((b, txt.strip()[-400:]))
    return bad, diags


if __name__ == "__main__":
    import sys
    prof = sys.argv[1] if len(sys.argv) > 1 else "MIX"
    seed = int(sys.argv[2]) if len(sys.argv) > 2 else 1
    n = int(sys.argv[3]) if len(sys.argv) > 3 else 40
    steps = int(sys.argv[4]) if len(sys.argv) > 4 else 25
    t = time.time()
    out = run_sessions(prof, seed, n, steps)
    print("sessions", n, "impl time", round(time.time() - t, 1), "oracle failures", len(out["oracle"]))
    for f in out["oracle"][:8]:
        print("  ORACLE", f["oracle"], f["cls"], "session", f["session"], "step", f["step"], f["detail"][:300])
    ok, log = coq_build()
    if not ok:
        print(log[-2000:])
        sys.exit(2)
    bad, diags = check_against_model(out)
    print("model mismatches", len(bad), bad[:20], "total", round(time.time() - t, 1))
    for b, txt in diags:
        print("session", b, out["meta"][b], txt)
        m = re.search(r"Some \((\d+), (\d+)\)", txt)
        if m:
            st = int(m.group(1))
            for j in range(max(0, st - 3), st + 1):
                print("   ", j, json.dumps(out["logs"][b][j], default=repr)[:600])
    print(sorted(out["stats"].items()))
