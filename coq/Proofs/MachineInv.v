(* MachineInv.v — C11 / C18 as an invariant of the unbuffered machine: whatever
   operation is issued, every object's tree stays a clean, well-formed member of
   its family, and what is in the backend stays valid. *)
From Coq Require Import List ZArith NArith Bool Lia Arith Permutation.
From SC Require Import Model.Val Model.Plain Model.Ops Model.Valid Model.Class Model.Tree Model.Machine.
From SC Require Import Proofs.TreeDefs Proofs.TreeIds Proofs.MachineDefs.
Import ListNotations.

(* ------------------------------------------------------------------ *)
(* class table                                                         *)
(* ------------------------------------------------------------------ *)

Lemma table_ok_cls T c : table_ok T = true -> c < length T -> cls_ok T (get_cls T c) = true.
Proof.
  intros H Hc. unfold table_ok in H. rewrite forallb_forall in H. apply H.
  unfold get_cls. apply nth_In. exact Hc.
Qed.

(* every validator list that requires JSON leaves or dot-free keys also requires string keys *)
Lemma lang3_str_keys vs :
  (l_json_leaves (lang3 vs) = true \/ l_no_dots (lang3 vs) = true) -> l_str_keys (lang3 vs) = true.
Proof.
  destruct vs as [|n vs]; simpl.
  - intros [H|H]; discriminate.
  - intros _. destruct n; reflexivity.
Qed.

Lemma cls_facts T c :
  table_ok T = true -> c < length T ->
  in_backend T (backend_of T c) c = true
  /\ backend_has_both T (backend_of T c) = true
  /\ uniform_backend T (backend_of T c) (lang_of T c) = true
  /\ (c_kind (get_cls T c) = KList \/ c_kind (get_cls T c) = KDict).
Proof.
  intros HT Hc. pose proof (table_ok_cls T c HT Hc) as H. unfold cls_ok in H.
  apply andb_true_iff in H. destruct H as [H H3]. apply andb_true_iff in H. destruct H as [H1 H2].
  split; [|split; [|split]].
  - apply in_backend_spec. split; [exact Hc|reflexivity].
  - exact H1.
  - exact H2.
  - apply orb_true_iff in H3. destruct H3 as [H3|H3]; apply kind_eqb_eq in H3; auto.
Qed.

(* ------------------------------------------------------------------ *)
(* finite maps                                                         *)
(* ------------------------------------------------------------------ *)

Lemma nlookup_nset {A} k k' (v : A) l :
  nlookup k' (nset k v l) = if Nat.eqb k' k then Some v else nlookup k' l.
Proof.
  induction l as [|[k0 v0] l IH]; simpl.
  - destruct (Nat.eqb k' k); reflexivity.
  - destruct (Nat.eqb k k0) eqn:E; simpl.
    + apply Nat.eqb_eq in E. subst k0. destruct (Nat.eqb k' k); reflexivity.
    + destruct (Nat.eqb k' k0) eqn:E0.
      * apply Nat.eqb_eq in E0. subst k0. rewrite Nat.eqb_sym, E. reflexivity.
      * exact IH.
Qed.

Lemma nlookup_None_keys {A} k (l : list (nat * A)) : ~ In k (map fst l) -> nlookup k l = None.
Proof.
  induction l as [|[k0 v0] l IH]; simpl; intros H.
  - reflexivity.
  - destruct (Nat.eqb k k0) eqn:E.
    + apply Nat.eqb_eq in E. subst. exfalso. apply H. left; reflexivity.
    + apply IH. intros Hin. apply H. right; exact Hin.
Qed.

Lemma nlookup_nremove {A} k k' (l : list (nat * A)) :
  NoDup (map fst l) ->
  nlookup k' (nremove k l) = if Nat.eqb k' k then None else nlookup k' l.
Proof.
  induction l as [|[k0 v0] l IH]; simpl; intros Hn.
  - destruct (Nat.eqb k' k); reflexivity.
  - inversion Hn as [|? ? Hnin Hn']; subst.
    destruct (Nat.eqb k k0) eqn:E; simpl.
    + apply Nat.eqb_eq in E. subst k0. destruct (Nat.eqb k' k) eqn:E1.
      * apply Nat.eqb_eq in E1. subst. apply nlookup_None_keys. exact Hnin.
      * reflexivity.
    + destruct (Nat.eqb k' k0) eqn:E0.
      * apply Nat.eqb_eq in E0. subst k0. rewrite Nat.eqb_sym, E. reflexivity.
      * apply IH. exact Hn'.
Qed.

Lemma nset_keys {A} k (v : A) l x : In x (map fst (nset k v l)) <-> x = k \/ In x (map fst l).
Proof.
  induction l as [|[k0 v0] l IH]; simpl.
  - split; intros [H|H]; auto.
  - destruct (Nat.eqb k k0) eqn:E; simpl.
    + apply Nat.eqb_eq in E. subst k0. split; intros H; intuition.
    + rewrite IH. split; intros H; intuition.
Qed.

Lemma nset_nodup {A} k (v : A) l : NoDup (map fst l) -> NoDup (map fst (nset k v l)).
Proof.
  induction l as [|[k0 v0] l IH]; simpl; intros Hn.
  - constructor; [intros []|constructor].
  - inversion Hn as [|? ? Hnin Hn']; subst.
    destruct (Nat.eqb k k0) eqn:E; simpl.
    + apply Nat.eqb_eq in E. subst k0. constructor; assumption.
    + constructor; [|auto]. rewrite nset_keys. intros [H|H].
      * subst. rewrite Nat.eqb_refl in E. discriminate.
      * contradiction.
Qed.

Lemma nremove_keys {A} k (l : list (nat * A)) x : In x (map fst (nremove k l)) -> In x (map fst l).
Proof.
  induction l as [|[k0 v0] l IH]; simpl; intros H.
  - exact H.
  - destruct (Nat.eqb k k0); simpl in *; [right; exact H|]. destruct H; auto.
Qed.

Lemma nremove_nodup {A} k (l : list (nat * A)) : NoDup (map fst l) -> NoDup (map fst (nremove k l)).
Proof.
  induction l as [|[k0 v0] l IH]; simpl; intros Hn.
  - constructor.
  - inversion Hn as [|? ? Hnin Hn']; subst.
    destruct (Nat.eqb k k0); simpl; [exact Hn'|].
    constructor; [|auto]. intros H. apply nremove_keys in H. contradiction.
Qed.

(* ------------------------------------------------------------------ *)
(* sub-multisets: what the list operations do to the children          *)
(* ------------------------------------------------------------------ *)

Definition sub {A} (l' l : list A) : Prop := exists rest, Permutation (l' ++ rest) l.

Lemma sub_refl {A} (l : list A) : sub l l.
Proof. exists []. rewrite app_nil_r. apply Permutation_refl. Qed.

Lemma sub_perm {A} (l' l m : list A) : sub l' l -> Permutation l m -> sub l' m.
Proof. intros [r H] P. exists r. eapply Permutation_trans; eauto. Qed.

Lemma sub_perm_l {A} (l' l'' l : list A) : Permutation l'' l' -> sub l' l -> sub l'' l.
Proof.
  intros P [r H]. exists r. eapply Permutation_trans; [|exact H].
  apply Permutation_app_tail. exact P.
Qed.

Lemma sub_trans {A} (a b c : list A) : sub a b -> sub b c -> sub a c.
Proof.
  intros [r1 H1] [r2 H2]. exists (r1 ++ r2). rewrite app_assoc.
  eapply Permutation_trans; [|exact H2]. apply Permutation_app_tail. exact H1.
Qed.

Lemma sub_nil {A} (l : list A) : sub [] l.
Proof. exists l. apply Permutation_refl. Qed.

Lemma sub_cons {A} (a : A) l' l : sub l' l -> sub (a :: l') (a :: l).
Proof. intros [r H]. exists r. simpl. constructor. exact H. Qed.

Lemma sub_skip {A} (a : A) l' l : sub l' l -> sub l' (a :: l).
Proof.
  intros [r H]. exists (a :: r). eapply Permutation_trans; [apply Permutation_sym, Permutation_middle|].
  constructor. exact H.
Qed.

Lemma sub_app_r {A} (l' l m : list A) : sub l' l -> sub l' (l ++ m).
Proof.
  intros [r H]. exists (r ++ m). rewrite app_assoc. apply Permutation_app_tail. exact H.
Qed.

Lemma sub_app_l {A} (l' l m : list A) : sub l' l -> sub l' (m ++ l).
Proof. intros H. eapply sub_perm; [apply sub_app_r; exact H|apply Permutation_app_comm]. Qed.

Lemma sub_app {A} (a a' b b' : list A) : sub a a' -> sub b b' -> sub (a ++ b) (a' ++ b').
Proof.
  intros [r1 H1] [r2 H2]. exists (r1 ++ r2).
  eapply Permutation_trans; [|apply Permutation_app; [exact H1|exact H2]].
  rewrite <- !app_assoc. apply Permutation_app_head.
  rewrite !app_assoc. apply Permutation_app_tail. apply Permutation_app_comm.
Qed.

Lemma sub_incl {A} (l' l : list A) : sub l' l -> incl l' l.
Proof.
  intros [r H] x Hx. eapply Permutation_in; [exact H|]. apply in_or_app. left; exact Hx.
Qed.

Lemma sub_Forall {A} (P : A -> Prop) l' l : sub l' l -> Forall P l -> Forall P l'.
Proof.
  intros S H. rewrite Forall_forall in *. intros x Hx. apply H. eapply sub_incl; eauto.
Qed.

Lemma sub_flat_map {A B} (f : A -> list B) l' l : sub l' l -> sub (flat_map f l') (flat_map f l).
Proof.
  intros [r H]. exists (flat_map f r). rewrite <- flat_map_app.
  apply Permutation_flat_map. exact H.
Qed.

Lemma sub_NoDup {A} (l' l : list A) : sub l' l -> NoDup l -> NoDup l'.
Proof.
  intros [r H] N. apply Permutation_sym in H. apply (Permutation_NoDup H) in N.
  apply NoDup_app_inv in N. tauto.
Qed.

Section ListSub.
  Context {A : Type}.

  Lemma sub_firstn (l : list A) n : sub (firstn n l) l.
  Proof.
    exists (skipn n l). rewrite firstn_skipn. apply Permutation_refl.
  Qed.

  Lemma sub_skipn (l : list A) n : sub (skipn n l) l.
  Proof.
    exists (firstn n l). eapply Permutation_trans; [apply Permutation_app_comm|].
    rewrite firstn_skipn. apply Permutation_refl.
  Qed.

  Lemma sub_set_nth (l : list A) i x : sub (set_nth l i x) (x :: l).
  Proof.
    revert i. induction l as [|h t IH]; intros i; simpl.
    - apply sub_nil.
    - destruct i.
      + apply sub_cons. apply sub_skip. apply sub_refl.
      + eapply sub_perm; [apply sub_cons; apply IH|]. apply perm_swap.
  Qed.

  Lemma sub_del_nth (l : list A) i : sub (del_nth l i) l.
  Proof.
    revert i. induction l as [|h t IH]; intros i; simpl.
    - apply sub_nil.
    - destruct i; [apply sub_skip, sub_refl|apply sub_cons, IH].
  Qed.

  Lemma sub_firstn_skipn (l : list A) j k : j <= k -> sub (firstn j l ++ skipn k l) l.
  Proof.
    revert j k. induction l as [|h t IH]; intros j k H.
    - rewrite firstn_nil, skipn_nil. apply sub_nil.
    - destruct j as [|j]; simpl.
      + apply sub_skipn.
      + destruct k as [|k]; [lia|]. simpl. apply sub_cons. apply IH. lia.
  Qed.

  Lemma sub_drop_indices (l : list A) is pos : sub (drop_indices l is pos) l.
  Proof.
    revert pos. induction l as [|h t IH]; intros pos; simpl.
    - apply sub_nil.
    - destruct (existsb (Nat.eqb pos) is); [apply sub_skip, IH|apply sub_cons, IH].
  Qed.

  Lemma sub_assign_at (is : list nat) : forall (l vs : list A), sub (assign_at l is vs) (l ++ vs).
  Proof.
    induction is as [|i is IH]; intros l vs; simpl.
    - apply sub_app_r, sub_refl.
    - destruct vs as [|v vs].
      + apply sub_app_r, sub_refl.
      + eapply sub_trans; [apply IH|].
        eapply sub_perm; [apply sub_app; [apply sub_set_nth|apply sub_refl]|].
        simpl. apply Permutation_middle.
  Qed.

  Lemma sub_list_remove {B} (eqA : A -> B -> bool) (l : list A) x l' :
    list_remove eqA l x = Ok l' -> sub l' l.
  Proof.
    revert l'. induction l as [|h t IH]; intros l'; simpl; intros H.
    - discriminate.
    - destruct (eqA h x).
      + inversion H; subst. apply sub_skip, sub_refl.
      + destruct (list_remove eqA t x) as [t'|e]; [|discriminate].
        inversion H; subst. apply sub_cons. apply IH. reflexivity.
  Qed.
End ListSub.

(* ------------------------------------------------------------------ *)
(* locating and replacing handles                                      *)
(* ------------------------------------------------------------------ *)

Lemma find_in_list_None {A} (f : A -> option node) l :
  find_in_list f l = None -> Forall (fun x => f x = None) l.
Proof.
  induction l as [|x l IH]; simpl; intros H; [constructor|].
  destruct (f x) eqn:E; [discriminate|]. constructor; auto.
Qed.

Lemma find_in_list_all_None {A} (f : A -> option node) l :
  Forall (fun x => f x = None) l -> find_in_list f l = None.
Proof. intros H. induction H as [|x l Hx H IH]; simpl; [reflexivity|]. rewrite Hx. exact IH. Qed.

Lemma map_id_Forall {A} (g : A -> A) l : Forall (fun x => g x = x) l -> map g l = l.
Proof. intros H. induction H as [|x l Hx H IH]; simpl; congruence. Qed.

Lemma not_in_flat_map {A} (f : A -> list nat) l h :
  ~ In h (flat_map f l) -> Forall (fun x => ~ In h (f x)) l.
Proof.
  intros H. apply Forall_forall. intros x Hx Hin. apply H. apply in_flat_map. eauto.
Qed.

Lemma find_node_absent h r n :
  ~ In h (node_ids n) -> find_node h n = None /\ replace_node h r n = n.
Proof.
  induction n as [v|id c l IH|id c d IH] using node_ind2; intros H.
  - split; reflexivity.
  - simpl in H. simpl. destruct (Nat.eqb id h) eqn:E.
    { apply Nat.eqb_eq in E. exfalso. apply H. left; exact E. }
    assert (H' : Forall (fun x => ~ In h (node_ids x)) l).
    { apply not_in_flat_map. intros Hin. apply H. right; exact Hin. }
    split.
    + apply find_in_list_all_None. rewrite Forall_forall in *. intros x Hx.
      apply (IH x Hx). apply H'; exact Hx.
    + f_equal. apply map_id_Forall. rewrite Forall_forall in *. intros x Hx.
      apply (IH x Hx). apply H'; exact Hx.
  - simpl in H. simpl. destruct (Nat.eqb id h) eqn:E.
    { apply Nat.eqb_eq in E. exfalso. apply H. left; exact E. }
    assert (H' : Forall (fun kn : key * node => ~ In h (node_ids (snd kn))) d).
    { apply (not_in_flat_map (fun kn : key * node => node_ids (snd kn))).
      intros Hin. apply H. right; exact Hin. }
    split.
    + apply find_in_list_all_None. rewrite Forall_forall in *. intros x Hx.
      apply (IH x Hx). apply H'; exact Hx.
    + f_equal. apply map_id_Forall. rewrite Forall_forall in *. intros [k x] Hx. simpl.
      f_equal. apply (IH (k, x) Hx). apply (H' (k, x)); exact Hx.
Qed.

Lemma find_node_None h n : find_node h n = None -> ~ In h (node_ids n).
Proof.
  induction n as [v|id c l IH|id c d IH] using node_ind2; simpl; intros H.
  - intros [].
  - destruct (Nat.eqb id h) eqn:E; [discriminate|]. apply Nat.eqb_neq in E.
    apply find_in_list_None in H. intros [Hin|Hin]; [contradiction|].
    apply in_flat_map in Hin. destruct Hin as [x [Hx Hin]].
    rewrite Forall_forall in *. exact (IH x Hx (H x Hx) Hin).
  - destruct (Nat.eqb id h) eqn:E; [discriminate|]. apply Nat.eqb_neq in E.
    apply find_in_list_None in H. intros [Hin|Hin]; [contradiction|].
    apply in_flat_map in Hin. destruct Hin as [x [Hx Hin]].
    rewrite Forall_forall in *. exact (IH x Hx (H x Hx) Hin).
Qed.

Lemma find_node_Some_in h n m : find_node h n = Some m -> In h (node_ids n).
Proof.
  intros H. destruct (in_dec Nat.eq_dec h (node_ids n)) as [Hin|Hnin]; [exact Hin|].
  destruct (find_node_absent h n n Hnin) as [E _]. congruence.
Qed.

Section FindSplit.
  Context {A : Type}.
  Variables (f : A -> option node) (g : A -> A) (ids : A -> list nat) (h : nat).
  Hypothesis absent : forall x, ~ In h (ids x) -> f x = None /\ g x = x.
  Hypothesis none_absent : forall x, f x = None -> ~ In h (ids x).

  Lemma find_in_list_split l m :
    find_in_list f l = Some m -> NoDup (flat_map ids l) ->
    exists l1 x l2, l = l1 ++ x :: l2 /\ f x = Some m /\ map g l = l1 ++ g x :: l2.
  Proof.
    induction l as [|x l IH]; simpl; intros H N.
    - discriminate.
    - apply NoDup_app_inv in N. destruct N as [N1 [N2 N3]].
      destruct (f x) as [r|] eqn:E.
      + inversion H; subst r. exists [], x, l. split; [reflexivity|]. split; [exact E|].
        simpl. f_equal. apply map_id_Forall. apply Forall_forall. intros y Hy.
        apply absent. intros Hin.
        assert (Hx : In h (ids x)).
        { destruct (in_dec Nat.eq_dec h (ids x)) as [Hi|Hn]; [exact Hi|].
          destruct (absent x Hn) as [E' _]. congruence. }
        apply (N3 h Hx). apply in_flat_map. eauto.
      + destruct (IH H N2) as [l1 [x0 [l2 [E1 [E2 E3]]]]].
        exists (x :: l1), x0, l2. split; [simpl; congruence|]. split; [exact E2|].
        simpl. rewrite E3. f_equal. apply absent. apply none_absent. exact E.
  Qed.
End FindSplit.

(* the ids of a tree around a handle, and what replacing the handle's node does to them *)
Lemma find_replace_ids h r : forall n m,
  NoDup (node_ids n) -> find_node h n = Some m ->
  exists pre post, node_ids n = pre ++ node_ids m ++ post
                   /\ node_ids (replace_node h r n) = pre ++ node_ids r ++ post.
Proof.
  induction n as [v|id c l IH|id c d IH] using node_ind2; intros m N H.
  - discriminate.
  - simpl in H. simpl replace_node. destruct (Nat.eqb id h) eqn:E.
    + inversion H; subst m. exists [], []. rewrite !app_nil_r. split; reflexivity.
    + simpl in N. inversion N as [|? ? Hnin N']; subst.
      destruct (find_in_list_split (find_node h) (replace_node h r) node_ids h
                  (find_node_absent h r) (find_node_None h) l m H N')
        as [l1 [x [l2 [E1 [E2 E3]]]]].
      rewrite E3. subst l. rewrite Forall_forall in IH.
      assert (Nx : NoDup (node_ids x)).
      { rewrite flat_map_app in N'. apply NoDup_app_inv in N'. destruct N' as [_ [N' _]].
        simpl in N'. apply NoDup_app_inv in N'. tauto. }
      destruct (IH x (in_elt x l1 l2) m Nx E2) as [pre [post [P1 P2]]].
      exists (id :: lids l1 ++ pre), (post ++ lids l2). simpl.
      rewrite !flat_map_app. simpl. rewrite P1, P2. unfold lids.
      rewrite <- !app_assoc. split; reflexivity.
  - simpl in H. simpl replace_node. destruct (Nat.eqb id h) eqn:E.
    + inversion H; subst m. exists [], []. rewrite !app_nil_r. split; reflexivity.
    + simpl in N. inversion N as [|? ? Hnin N']; subst.
      destruct (find_in_list_split (fun kn : key * node => find_node h (snd kn))
                  (fun kn : key * node => (fst kn, replace_node h r (snd kn)))
                  (fun kn : key * node => node_ids (snd kn)) h
                  (fun x Hx => let (A1, A2) := find_node_absent h r (snd x) Hx in
                               conj A1 (match x as x0 return replace_node h r (snd x0) = snd x0 ->
                                                (fst x0, replace_node h r (snd x0)) = x0
                                        with (k, w) => fun e => f_equal (pair k) e end A2))
                  (fun x => find_node_None h (snd x)) d m H N')
        as [l1 [x [l2 [E1 [E2 E3]]]]].
      rewrite E3. subst d. rewrite Forall_forall in IH.
      assert (Nx : NoDup (node_ids (snd x))).
      { rewrite flat_map_app in N'. apply NoDup_app_inv in N'. destruct N' as [_ [N' _]].
        simpl in N'. apply NoDup_app_inv in N'. tauto. }
      destruct (IH x (in_elt x l1 l2) m Nx E2) as [pre [post [P1 P2]]].
      exists (id :: eids l1 ++ pre), (post ++ eids l2). simpl.
      rewrite !flat_map_app. simpl. rewrite P1, P2. unfold eids.
      rewrite <- !app_assoc. split; reflexivity.
Qed.

Lemma find_node_id h n m : find_node h n = Some m -> node_id m = Some h.
Proof.
  revert m. induction n as [v|id c l IH|id c d IH] using node_ind2; intros m H; simpl in H.
  - discriminate.
  - destruct (Nat.eqb id h) eqn:E.
    + inversion H; subst. apply Nat.eqb_eq in E. simpl. congruence.
    + clear E. induction IH as [|x l Hx _ IHl]; simpl in H; [discriminate|].
      destruct (find_node h x) eqn:E1; [inversion H; subst; auto|auto].
  - destruct (Nat.eqb id h) eqn:E.
    + inversion H; subst. apply Nat.eqb_eq in E. simpl. congruence.
    + clear E. induction IH as [|x l Hx _ IHl]; simpl in H; [discriminate|].
      destruct (find_node h (snd x)) eqn:E1; [inversion H; subst; auto|auto].
Qed.

(* head facts of the tree after a replacement by a node with the same head *)
Lemma replace_head h r n m :
  find_node h n = Some m ->
  node_id r = node_id m -> node_cls r = node_cls m -> node_kind r = node_kind m ->
  node_id (replace_node h r n) = node_id n /\ node_cls (replace_node h r n) = node_cls n
  /\ node_kind (replace_node h r n) = node_kind n.
Proof.
  intros H H1 H2 H3. destruct n as [v|id c l|id c d]; simpl in *.
  - discriminate.
  - destruct (Nat.eqb id h); [inversion H; subst m; simpl in *; auto|simpl; auto].
  - destruct (Nat.eqb id h); [inversion H; subst m; simpl in *; auto|simpl; auto].
Qed.

Lemma container_iff_id n : node_is_container n = true <-> node_id n <> None.
Proof. destruct n; simpl; split; intros H; try congruence; try discriminate; exfalso; apply H; reflexivity. Qed.

Lemma list_setslice_sub {A} (l : list A) s es l' :
  list_setslice l s es = Ok l' -> sub l' (l ++ es).
Proof.
  unfold list_setslice. destruct (slice_adjust (zlen l) s) as [[[[start stop] step] cnt]|e]; [|discriminate].
  destruct (Z.eqb step 1).
  - intros H. inversion H; subst. clear H.
    eapply sub_perm_l; [|apply sub_app; [apply (sub_firstn_skipn l (Z.to_nat start)
                                 (Z.to_nat (if Z.ltb stop start then start else stop)))|apply sub_refl]].
    + rewrite <- app_assoc. apply Permutation_app_head. apply Permutation_app_comm.
    + destruct (Z.ltb stop start) eqn:E; [lia|]. apply Z.ltb_ge in E. lia.
  - destruct (Z.eqb (zlen es) cnt); [|discriminate]. intros H. inversion H; subst.
    apply sub_assign_at.
Qed.

Lemma list_pop_sub {A} (l : list A) z x l' : list_pop l z = Ok (x, l') -> sub l' l.
Proof.
  unfold list_pop. destruct (norm_idx (zlen l) z) as [j|]; [|discriminate].
  destruct (nth_error l j); [|discriminate]. intros H. inversion H; subst. apply sub_del_nth.
Qed.

Lemma iter_val_wf v vs : iter_val v = Ok vs -> wf_val v = true -> Forall (fun w => wf_val w = true) vs.
Proof.
  destruct v as [[| | | |s|]|l|d]; simpl; intros H W; try discriminate; inversion H; subst.
  - apply Forall_forall. intros w Hw. apply in_map_iff in Hw. destruct Hw as [c [<- _]]. reflexivity.
  - apply forallb_Forall'. exact W.
  - apply Forall_forall. intros w Hw. apply in_map_iff in Hw. destruct Hw as [[k x] [<- _]].
    simpl. destruct k; reflexivity.
Qed.

Lemma lids_map_NV {A} (g : A -> val) l : lids (map (fun x => NV (g x)) l) = [].
Proof. induction l; simpl; auto. Qed.

Lemma val_ok_str L s : val_ok L (VS (SStr s)) = true.
Proof. destruct L as [[] [] []]; reflexivity. Qed.

Lemma key_ok_vkey vs k : key_ok (lang3 vs) k = true -> val_ok (lang3 vs) (vkey k) = true.
Proof.
  destruct k as [s|t]; simpl; [intros _; apply val_ok_str|].
  intros H. pose proof (lang3_str_keys vs) as HS. unfold key_ok in H. unfold val_ok.
  destruct (l_str_keys (lang3 vs)); [simpl in H; discriminate|].
  destruct (l_json_leaves (lang3 vs)); [discriminate HS; auto|].
  destruct (l_no_dots (lang3 vs)); reflexivity.
Qed.

(* the argument values a mutator stores; [wf_val] only says that dict keys are unique
   (always true of Python dicts) and puts NO restriction on forbidden data *)
Definition lop_stored (o : lop) : list val :=
  match o with
  | LSet _ v | LSetSlice _ v | LInsert _ v | LAppend v | LExtend v | LIAdd v | LReset v => [v]
  | _ => []
  end.
Definition dop_stored (o : dop) : list val :=
  match o with
  | DSet _ v | DSetdefault _ v | DUpdate v | DReset v => [v]
  | _ => []
  end.
Definition nop_stored (o : nop) : list val :=
  match o with OL o => lop_stored o | OD o => dop_stored o end.
Definition op_args_wf (op : mop) : Prop :=
  match op with
  | MOp _ _ o => forall v, In v (nop_stored o) -> wf_val v = true
  | _ => True
  end.

Lemma dict_set_sub {A} (d : list (key * A)) k n : sub (dict_set d k n) (d ++ [(k, n)]).
Proof.
  induction d as [|[k' v'] d IH]; simpl.
  - apply sub_refl.
  - destruct (key_eqb k k') eqn:E.
    + apply key_eqb_eq in E. subst k'. apply sub_skip.
      eapply sub_perm; [apply sub_refl|apply Permutation_cons_append].
    + apply sub_cons. exact IH.
Qed.

Lemma dict_remove_sub {A} (d : list (key * A)) k : sub (dict_remove d k) d.
Proof.
  induction d as [|[k' v'] d IH]; simpl.
  - apply sub_nil.
  - destruct (key_eqb k k'); [apply sub_skip, sub_refl|apply sub_cons, IH].
Qed.

Lemma alookup_dict_remove_None {A} (d : list (key * A)) k k0 :
  alookup k0 d = None -> alookup k0 (dict_remove d k) = None.
Proof.
  induction d as [|[k' v'] d IH]; simpl; intros H.
  - reflexivity.
  - destruct (key_eqb k0 k') eqn:E0; [discriminate|].
    destruct (key_eqb k k'); simpl; [exact H|]. rewrite E0. auto.
Qed.

Lemma keys_unique_dict_remove {A} (d : list (key * A)) k :
  keys_unique d = true -> keys_unique (dict_remove d k) = true.
Proof.
  induction d as [|[k' v'] d IH]; simpl; intros H.
  - reflexivity.
  - destruct (alookup k' d) eqn:E; [discriminate|].
    destruct (key_eqb k k'); simpl; [exact H|].
    rewrite (alookup_dict_remove_None d k k' E). auto.
Qed.

Lemma alookup_app_None {A} (d1 d2 : list (key * A)) k :
  alookup k (d1 ++ d2) = None -> alookup k d1 = None.
Proof.
  induction d1 as [|[k' v'] d1 IH]; simpl; intros H; [reflexivity|].
  destruct (key_eqb k k'); [discriminate|auto].
Qed.

Lemma keys_unique_app_l {A} (d1 d2 : list (key * A)) :
  keys_unique (d1 ++ d2) = true -> keys_unique d1 = true.
Proof.
  induction d1 as [|[k v] d1 IH]; simpl; intros H; [reflexivity|].
  destruct (alookup k (d1 ++ d2)) eqn:E; [discriminate|].
  rewrite (alookup_app_None _ _ _ E). auto.
Qed.

Lemma dict_popitem_split {A} (d : list (key * A)) kv d' :
  dict_popitem d = Ok (kv, d') -> d = d' ++ [kv].
Proof.
  unfold dict_popitem. destruct (rev d) as [|x r] eqn:E; [discriminate|].
  intros H. inversion H; subst. rewrite <- (rev_involutive d), E. reflexivity.
Qed.

Lemma dict_update_Forall {A} (P : key * A -> Prop) (o acc : list (key * A)) :
  (forall k k' v, P (k, v) -> P (k', v)) ->
  Forall P acc -> Forall P o -> Forall P (dict_update acc o).
Proof.
  intros HP. unfold dict_update. revert acc. induction o as [|[k v] o IH]; simpl; intros acc Ha Ho.
  - exact Ha.
  - inversion Ho; subst. apply IH; [|assumption]. apply Forall_dict_set; auto.
Qed.

Lemma pairs_to_dict_wf l d :
  pairs_to_dict l = Some d -> Forall (fun v => wf_val v = true) l ->
  Forall (fun kv : key * val => wf_val (snd kv) = true) d.
Proof.
  revert d. induction l as [|x l IH]; simpl; intros d H W.
  - inversion H; subst. constructor.
  - destruct x as [|[|[[| | | |s|]| |] [|v [|]]]|]; try discriminate.
    destruct (pairs_to_dict l) as [d0|]; [|discriminate]. inversion H; subst.
    inversion W as [|? ? W1 W2]; subst. constructor; [|apply IH; auto].
    simpl in W1 |- *. rewrite andb_true_r in W1. exact W1.
Qed.

Lemma as_mapping_wf v od :
  as_mapping v = Ok od -> wf_val v = true -> Forall (fun kv : key * val => wf_val (snd kv) = true) od.
Proof.
  destruct v as [s|l|d]; simpl; intros H W.
  - discriminate.
  - destruct (pairs_to_dict l) as [d0|] eqn:E; [|discriminate]. inversion H; subst.
    apply dict_update_Forall; [auto|constructor|].
    eapply pairs_to_dict_wf; [exact E|]. apply forallb_Forall'. exact W.
  - inversion H; subst. apply wf_val_VD. exact W.
Qed.

Lemma update_entries_wf (d : list (key * node)) od :
  Forall (fun kv : key * val => wf_val (snd kv) = true) od ->
  Forall (fun kv : key * val => wf_val (snd kv) = true) (update_entries d od).
Proof.
  intros H. unfold update_entries.
  assert (H' : Forall (fun kv : key * val => wf_val (snd kv) = true) (dict_update [] od)).
  { apply dict_update_Forall; auto. }
  apply Forall_app. split.
  - apply Forall_forall. intros kv Hin. apply in_flat_map in Hin. destruct Hin as [kn [_ Hin]].
    destruct (alookup (fst kn) (dict_update [] od)) as [v|] eqn:E; [|destruct Hin].
    destruct Hin as [<-|[]]. simpl. apply alookup_In in E. rewrite Forall_forall in H'.
    apply (H' (fst kn, v)). exact E.
  - apply Forall_filter'. exact H'.
Qed.

Lemma fresh_nil nx nx' : nx <= nx' -> ids_step [] nx [] nx'.
Proof. intros H. apply ids_step_fresh; [exact H|constructor|intros i []]. Qed.

Lemma sub_ids_step {A} (f : A -> list nat) l l' news nx nx2 :
  ids_pre (flat_map f l) nx -> sub l' (l ++ news) -> ids_step [] nx (flat_map f news) nx2 ->
  ids_step (flat_map f l) nx (flat_map f l') nx2.
Proof.
  intros [P1 P2] S [F1 [F2 F3]].
  pose proof (sub_flat_map f _ _ S) as S'. rewrite flat_map_app in S'.
  split; [exact F1|]. split.
  - eapply sub_NoDup; [exact S'|]. apply NoDup_app'; auto.
    intros i Hi Hi2. apply P2 in Hi. destruct (F3 i Hi2) as [[]|H]. lia.
  - intros i Hi. apply (sub_incl _ _ S') in Hi. apply in_app_or in Hi.
    destruct Hi as [Hi|Hi]; [left; exact Hi|]. destruct (F3 i Hi) as [[]|H]. right; exact H.
Qed.

(* ------------------------------------------------------------------ *)
(* good nodes: structurally well-formed members of the family, clean   *)
(* ------------------------------------------------------------------ *)

Section Nodes.
  Variables (T : class_table) (b : nat) (L : lang).
  Hypothesis HB : backend_has_both T b = true.
  Hypothesis HU : uniform_backend T b L = true.

  Definition gnode (n : node) : Prop := wfn T b n /\ clean L n.
  Definition gentry (kn : key * node) : Prop := key_ok L (fst kn) = true /\ gnode (snd kn).

  Lemma gnode_NL id c l : gnode (NL id c l) <-> CkL T b c /\ Forall gnode l.
  Proof.
    unfold gnode. rewrite wfn_NL, clean_NL, !Forall_forall. split.
    - intros [[H1 H2] H3]. split; auto.
    - intros [H1 H2]. split; [split; [exact H1|]|]; intros x Hx; apply H2; exact Hx.
  Qed.

  Lemma gnode_ND id c d :
    gnode (ND id c d) <-> CkD T b c /\ keys_unique d = true /\ Forall gentry d.
  Proof.
    unfold gentry, gnode. rewrite wfn_ND, clean_ND. unfold KUu. rewrite !Forall_forall. split.
    - intros [[H1 [H2 H3]] H4]. split; [exact H1|]. split; [exact H2|].
      intros x Hx. split; [apply H4; exact Hx|]. split; [apply H3; exact Hx|apply H4; exact Hx].
    - intros [H1 [H2 H3]]. split; [split; [exact H1|split; [exact H2|]]|]; intros x Hx;
        destruct (H3 x Hx) as [A1 [A2 A3]]; auto.
  Qed.

  Lemma gnode_fb c v nx :
    in_backend T b c = true -> val_ok L v = true -> wf_val v = true ->
    gnode (fst (from_base T c v nx)).
  Proof.
    intros Hc Hv Hw. split.
    - apply wfn_fb; assumption.
    - unfold clean. rewrite to_base_from_base. exact Hv.
  Qed.

  Lemma gnode_scalar s : val_ok L (VS s) = true -> gnode (NV (VS s)).
  Proof.
    intros H. split; [|exact H]. split; [apply nib_NV|]. repeat split; reflexivity.
  Qed.

  Lemma gnode_leaf v : gnode (NV v) -> exists s, v = VS s.
  Proof. intros [[_ [_ [H _]]] _]. destruct v; simpl in H; try discriminate. eauto. Qed.

  Lemma gnode_in_backend n c : gnode n -> node_cls n = Some c -> in_backend T b c = true.
  Proof.
    intros [[H _] _] Hc. apply H. destruct n; simpl in *; try discriminate;
      inversion Hc; subst; left; reflexivity.
  Qed.

  (* the node of a handle is good, and replacing it by a good node keeps the tree good *)
  Lemma find_replace_gnode h r : forall n m,
    NoDup (node_ids n) -> find_node h n = Some m -> gnode n ->
    gnode m /\ (gnode r -> gnode (replace_node h r n)).
  Proof.
    induction n as [v|id c l IH|id c d IH] using node_ind2; intros m N H G.
    - discriminate.
    - simpl in H. simpl replace_node. destruct (Nat.eqb id h) eqn:E.
      + inversion H; subst m. auto.
      + simpl in N. inversion N as [|? ? Hnin N']; subst.
        destruct (find_in_list_split (find_node h) (replace_node h r) node_ids h
                    (find_node_absent h r) (find_node_None h) l m H N')
          as [l1 [x [l2 [E1 [E2 E3]]]]].
        rewrite E3. subst l. rewrite Forall_forall in IH.
        assert (Nx : NoDup (node_ids x)).
        { rewrite flat_map_app in N'. apply NoDup_app_inv in N'. destruct N' as [_ [N' _]].
          simpl in N'. apply NoDup_app_inv in N'. tauto. }
        apply gnode_NL in G. destruct G as [Gc Gl]. apply Forall_app in Gl.
        destruct Gl as [G1 G2]. inversion G2 as [|? ? Gx G3]; subst.
        destruct (IH x (in_elt x l1 l2) m Nx E2 Gx) as [Gm Gr].
        split; [exact Gm|]. intros Hr. apply gnode_NL. split; [exact Gc|].
        apply Forall_app. split; [exact G1|]. constructor; auto.
    - simpl in H. simpl replace_node. destruct (Nat.eqb id h) eqn:E.
      + inversion H; subst m. auto.
      + simpl in N. inversion N as [|? ? Hnin N']; subst.
        destruct (find_in_list_split (fun kn : key * node => find_node h (snd kn))
                    (fun kn : key * node => (fst kn, replace_node h r (snd kn)))
                    (fun kn : key * node => node_ids (snd kn)) h
                    (fun x Hx => let (A1, A2) := find_node_absent h r (snd x) Hx in
                                 conj A1 (match x as x0 return replace_node h r (snd x0) = snd x0 ->
                                                  (fst x0, replace_node h r (snd x0)) = x0
                                          with (k, w) => fun e => f_equal (pair k) e end A2))
                    (fun x => find_node_None h (snd x)) d m H N')
          as [l1 [x [l2 [E1 [E2 E3]]]]].
        assert (KU : keys_unique (map (fun kn : key * node => (fst kn, replace_node h r (snd kn))) d)
                     = keys_unique d) by apply keys_unique_map.
        rewrite E3 in *. subst d. rewrite Forall_forall in IH.
        assert (Nx : NoDup (node_ids (snd x))).
        { rewrite flat_map_app in N'. apply NoDup_app_inv in N'. destruct N' as [_ [N' _]].
          simpl in N'. apply NoDup_app_inv in N'. tauto. }
        apply gnode_ND in G. destruct G as [Gc [Gk Gl]]. apply Forall_app in Gl.
        destruct Gl as [G1 G2]. inversion G2 as [|? ? Gx G3]; subst. destruct Gx as [Gxk Gx].
        destruct (IH x (in_elt x l1 l2) m Nx E2 Gx) as [Gm Gr].
        split; [exact Gm|]. intros Hr. apply gnode_ND. split; [exact Gc|].
        split; [rewrite KU; exact Gk|].
        apply Forall_app. split; [exact G1|]. constructor; auto. split; simpl; auto.
  Qed.

  (* ---------------------------------------------------------------- *)
  (* one operation on one node                                         *)
  (* ---------------------------------------------------------------- *)

  Definition step_ok (n : node) (nx : nat) (n2 : node) (nx2 : nat) : Prop :=
    gnode n2 /\ ids_step (node_ids n) nx (node_ids n2) nx2
    /\ node_id n2 = node_id n /\ node_cls n2 = node_cls n /\ node_kind n2 = node_kind n.

  Lemma step_ok_same n nx : gnode n -> ids_pre (node_ids n) nx -> step_ok n nx n nx.
  Proof. intros G P. split; [exact G|]. split; [apply ids_step_refl; exact P|]. auto. Qed.

  Lemma upd_step_ok data n nx n' nx' e :
    gnode n -> ids_pre (node_ids n) nx -> wf_val data = true ->
    upd T data n nx = (n', nx', e) -> step_ok n nx n' nx'.
  Proof.
    intros [Gw Gc] P Hw E. split; [split|split].
    - eapply upd_wfn; eauto.
    - eapply upd_clean; [exact HU|exact (proj1 Gw)|exact Gc|exact E].
    - eapply upd_ids_step; eauto.
    - eapply upd_same_head; eauto.
  Qed.

  Lemma step_ok_NL id c l l' news nx nx2 :
    gnode (NL id c l) -> ids_pre (node_ids (NL id c l)) nx ->
    Forall gnode news -> ids_step [] nx (lids news) nx2 -> sub l' (l ++ news) ->
    step_ok (NL id c l) nx (NL id c l') nx2.
  Proof.
    intros G P Gn F S. split; [|split; [|simpl; auto]].
    - apply gnode_NL in G. destruct G as [Gc Gl]. apply gnode_NL. split; [exact Gc|].
      eapply sub_Forall; [exact S|]. apply Forall_app. auto.
    - apply (ids_step_cons id (lids l) nx (lids l') nx2); [exact P|].
      apply (sub_ids_step node_ids l l' news); auto. eapply ids_pre_NL; exact P.
  Qed.

  Lemma step_ok_ND id c d d' news nx nx2 :
    gnode (ND id c d) -> ids_pre (node_ids (ND id c d)) nx ->
    Forall gentry news -> ids_step [] nx (eids news) nx2 -> sub d' (d ++ news) ->
    keys_unique d' = true ->
    step_ok (ND id c d) nx (ND id c d') nx2.
  Proof.
    intros G P Gn F S K. split; [|split; [|simpl; auto]].
    - apply gnode_ND in G. destruct G as [Gc [Gk Gl]]. apply gnode_ND. split; [exact Gc|].
      split; [exact K|]. eapply sub_Forall; [exact S|]. apply Forall_app. auto.
    - apply (ids_step_cons id (eids d) nx (eids d') nx2); [exact P|].
      apply (sub_ids_step (fun kn : key * node => node_ids (snd kn)) d d' news); auto.
      eapply ids_pre_ND; exact P.
  Qed.

  Lemma in_backend_CkL c : CkL T b c -> in_backend T b c = true.
  Proof. intros [H _]; exact H. Qed.
  Lemma in_backend_CkD c : CkD T b c -> in_backend T b c = true.
  Proof. intros [H _]; exact H. Qed.

  Lemma L_is_lang3 c : in_backend T b c = true -> L = lang3 (validators_of T c).
  Proof. intros Hc. symmetry. eapply uniform_lang; eauto. Qed.

  (* the elements a slice assignment stores *)
  Lemma elems_ok c n nx nx1 es :
    in_backend T b c = true ->
    gnode n -> ids_step [] nx (node_ids n) nx1 -> elems_of_node n = Ok es ->
    Forall gnode es /\ ids_step [] nx (lids es) nx1.
  Proof.
    intros Hc G F E. destruct n as [v|i c' kids|i c' d]; simpl in E.
    - destruct (gnode_leaf _ G) as [s ->]. destruct s; simpl in E; try discriminate.
      inversion E; subst. rewrite map_map. rewrite lids_map_NV. split.
      + apply Forall_forall. intros x Hx. apply in_map_iff in Hx. destruct Hx as [ch [<- _]].
        apply gnode_scalar. apply val_ok_str.
      + apply fresh_nil. destruct F; assumption.
    - inversion E; subst. apply gnode_NL in G. split; [tauto|].
      destruct F as [F1 [F2 F3]]. simpl in F2, F3. inversion F2; subst.
      split; [exact F1|]. split; [assumption|]. intros j Hj. apply F3. right; exact Hj.
    - inversion E; subst. apply gnode_ND in G. destruct G as [_ [_ G]].
      rewrite (lids_map_NV (fun kn : key * node => vkey (fst kn))). split.
      + apply Forall_forall. intros x Hx. apply in_map_iff in Hx. destruct Hx as [kn [<- Hkn]].
        rewrite Forall_forall in G. destruct (G kn Hkn) as [Hk _].
        assert (HV : val_ok L (vkey (fst kn)) = true).
        { rewrite (L_is_lang3 c Hc) in *. apply key_ok_vkey. exact Hk. }
        destruct (fst kn); apply gnode_scalar; exact HV.
      + apply fresh_nil. destruct F; assumption.
  Qed.

  Lemma mu_ok id c l (rl : res (list node)) nx nx1 news (r : res val * option nat) n2 nx2 :
    gnode (NL id c l) -> ids_pre (node_ids (NL id c l)) nx ->
    Forall gnode news -> ids_step [] nx (lids news) nx1 ->
    (forall l', rl = Ok l' -> sub l' (l ++ news)) ->
    match rl with
    | Ok l' => (plain_res (Ok vnone), NL id c l', nx1)
    | Err e => (plain_res (Err e), NL id c l, nx1)
    end = (r, n2, nx2) ->
    step_ok (NL id c l) nx n2 nx2.
  Proof.
    intros G P Gn F S H. destruct rl as [l'|e]; inversion H; subst.
    - eapply step_ok_NL; eauto.
    - eapply step_ok_NL; eauto. apply sub_app_r, sub_refl.
  Qed.

  Lemma fb_one c v nx n nx1 :
    in_backend T b c = true -> val_ok L v = true -> wf_val v = true ->
    from_base T c v nx = (n, nx1) ->
    gnode n /\ ids_step [] nx (node_ids n) nx1 /\ Forall gnode [n] /\ ids_step [] nx (lids [n]) nx1.
  Proof.
    intros Hc Hv Hw E. pose proof (gnode_fb c v nx Hc Hv Hw) as G. rewrite E in G. simpl in G.
    pose proof (from_base_ids_step T [] c v nx n nx1 E) as F.
    split; [exact G|]. split; [exact F|]. split; [constructor; auto|].
    simpl. rewrite app_nil_r. exact F.
  Qed.

  Lemma fb_many c vs nx ns nx1 :
    in_backend T b c = true -> Forall (fun v => val_ok L v = true) vs ->
    Forall (fun v => wf_val v = true) vs ->
    map_st (from_base T c) vs nx = (ns, nx1) ->
    Forall gnode ns /\ ids_step [] nx (lids ns) nx1.
  Proof.
    intros Hc Hv Hw E. split.
    - apply map_st_rel_intro in E. eapply map_st_rel_Forall; [exact E|].
      rewrite Forall_forall in *. intros v Hin s. apply gnode_fb; auto.
    - eapply map_from_base_ids_step; eauto.
  Qed.

  Lemma in_lop_ok id c l o nx c0 r n2 nx2 :
    gnode (NL id c l) -> ids_pre (node_ids (NL id c l)) nx ->
    in_backend T b c0 = true -> pre_lop T c0 o = None ->
    (forall v, In v (lop_stored o) -> wf_val v = true) ->
    in_lop T id c l o nx = (r, n2, nx2) ->
    step_ok (NL id c l) nx n2 nx2.
  Proof.
    intros G P Hc0 Hpre Hwf H.
    assert (Hc : in_backend T b c = true).
    { apply gnode_NL in G. apply in_backend_CkL. tauto. }
    pose proof (fresh_nil nx nx (le_n nx)) as F0.
    destruct o; unfold in_lop in H; cbv beta iota zeta in H;
      try (inversion H; subst; apply step_ok_same; assumption).
    - (* LSet *) simpl in Hpre. apply (validate_ok T b L HU c0 v Hc0) in Hpre.
      destruct (from_base T c v nx) as [n nx1] eqn:E.
      destruct (fb_one c v nx n nx1 Hc Hpre (Hwf v (or_introl eq_refl)) E) as [_ [_ [Gn Fn]]].
      eapply mu_ok; [exact G|exact P|exact Gn|exact Fn| |exact H].
      intros l' El. unfold list_set in El. destruct (norm_idx (zlen l) i); inversion El; subst.
      eapply sub_perm; [apply sub_set_nth|]. apply Permutation_cons_append.
    - (* LSetSlice *) simpl in Hpre. apply (validate_ok T b L HU c0 v Hc0) in Hpre.
      destruct (from_base T c v nx) as [n nx1] eqn:E.
      destruct (fb_one c v nx n nx1 Hc Hpre (Hwf v (or_introl eq_refl)) E) as [Gn [Fn _]].
      destruct (elems_of_node n) as [es|e] eqn:Ee.
      + destruct (elems_ok c n nx nx1 es Hc Gn Fn Ee) as [Ges Fes].
        eapply mu_ok; [exact G|exact P|exact Ges|exact Fes| |exact H].
        intros l' El. destruct (slice_adjust (zlen l) s); simpl in El; [|discriminate].
        eapply list_setslice_sub; exact El.
      + eapply (mu_ok id c l _ nx nx1 []); [exact G|exact P|apply Forall_nil|apply fresh_nil; destruct Fn; assumption| |exact H].
        intros l' El. destruct (slice_adjust (zlen l) s); simpl in El; discriminate.
    - (* LDel *) eapply mu_ok; [exact G|exact P|apply Forall_nil|exact F0| |exact H].
      intros l' El. unfold list_del in El. destruct (norm_idx (zlen l) i); inversion El; subst.
      apply sub_app_r, sub_del_nth.
    - (* LDelSlice *) eapply mu_ok; [exact G|exact P|apply Forall_nil|exact F0| |exact H].
      intros l' El. unfold list_delslice in El. destruct (slice_indices (zlen l) s); inversion El; subst.
      apply sub_app_r, sub_drop_indices.
    - (* LInsert *) simpl in Hpre. apply (validate_ok T b L HU c0 v Hc0) in Hpre.
      destruct (from_base T c v nx) as [n nx1] eqn:E.
      destruct (fb_one c v nx n nx1 Hc Hpre (Hwf v (or_introl eq_refl)) E) as [_ [_ [Gn Fn]]].
      inversion H; subst. eapply step_ok_NL; [exact G|exact P|exact Gn|exact Fn|].
      unfold list_insert. exists []. rewrite app_nil_r.
      eapply Permutation_trans; [apply Permutation_sym, Permutation_middle|].
      rewrite firstn_skipn. apply Permutation_cons_append.
    - (* LAppend *) simpl in Hpre. apply (validate_ok T b L HU c0 v Hc0) in Hpre.
      destruct (from_base T c v nx) as [n nx1] eqn:E.
      destruct (fb_one c v nx n nx1 Hc Hpre (Hwf v (or_introl eq_refl)) E) as [_ [_ [Gn Fn]]].
      inversion H; subst. eapply step_ok_NL; [exact G|exact P|exact Gn|exact Fn|]. apply sub_refl.
    - (* LExtend *) simpl in Hpre. destruct (iter_val v) as [vs|e] eqn:Ei; [|discriminate].
      apply (validate_ok T b L HU c0 (VL vs) Hc0) in Hpre. apply val_ok_VL in Hpre.
      pose proof (iter_val_wf v vs Ei (Hwf v (or_introl eq_refl))) as Hw.
      destruct (map_st (from_base T c) vs nx) as [ns nx1] eqn:E.
      destruct (fb_many c vs nx ns nx1 Hc Hpre Hw E) as [Gn Fn].
      inversion H; subst. eapply step_ok_NL; [exact G|exact P|exact Gn|exact Fn|]. apply sub_refl.
    - (* LIAdd *) simpl in Hpre. destruct (iter_val v) as [vs|e] eqn:Ei; [|discriminate].
      apply (validate_ok T b L HU c0 (VL vs) Hc0) in Hpre. apply val_ok_VL in Hpre.
      pose proof (iter_val_wf v vs Ei (Hwf v (or_introl eq_refl))) as Hw.
      destruct (map_st (from_base T c) vs nx) as [ns nx1] eqn:E.
      destruct (fb_many c vs nx ns nx1 Hc Hpre Hw E) as [Gn Fn].
      inversion H; subst. eapply step_ok_NL; [exact G|exact P|exact Gn|exact Fn|]. apply sub_refl.
    - (* LRemove *) eapply mu_ok; [exact G|exact P|apply Forall_nil|exact F0| |exact H].
      intros l' El. apply sub_app_r. eapply sub_list_remove; exact El.
    - (* LPop *) destruct (list_pop l match i with Some z => z | None => (-1)%Z end) as [[x l']|e] eqn:El.
      + inversion H; subst. eapply step_ok_NL; [exact G|exact P|apply Forall_nil|exact F0|].
        apply sub_app_r. eapply list_pop_sub; exact El.
      + inversion H; subst. apply step_ok_same; assumption.
    - (* LReverse *) inversion H; subst. eapply step_ok_NL; [exact G|exact P|apply Forall_nil|exact F0|].
      apply sub_app_r.
      eapply sub_perm_l; [apply Permutation_sym, Permutation_rev|apply sub_refl].
    - (* LClear *) inversion H; subst. eapply step_ok_NL; [exact G|exact P|apply Forall_nil|exact F0|].
      apply sub_nil.
    - (* LReset *) destruct (upd T v (NL id c l) nx) as [[n' nx'] e] eqn:E.
      assert (S : step_ok (NL id c l) nx n' nx').
      { eapply upd_step_ok; [exact G|exact P|apply Hwf; left; reflexivity|exact E]. }
      destruct e; inversion H; subst; exact S.
  Qed.

  Lemma in_dop_ok id c d o nx c0 r n2 nx2 :
    gnode (ND id c d) -> ids_pre (node_ids (ND id c d)) nx ->
    in_backend T b c0 = true -> pre_dop T c0 o = None ->
    (forall v, In v (dop_stored o) -> wf_val v = true) ->
    in_dop T id c d o nx = (r, n2, nx2) ->
    step_ok (ND id c d) nx n2 nx2.
  Proof.
    intros G P Hc0 Hpre Hwf H.
    assert (Hc : in_backend T b c = true).
    { apply gnode_ND in G. apply in_backend_CkD. tauto. }
    assert (Hk : keys_unique d = true) by (apply gnode_ND in G; tauto).
    pose proof (fresh_nil nx nx (le_n nx)) as F0.
    destruct o; unfold in_dop in H; cbv beta iota zeta in H;
      try (inversion H; subst; apply step_ok_same; assumption).
    - (* DSet *) simpl in Hpre. apply (validate_ok T b L HU c0 _ Hc0) in Hpre.
      apply val_ok_VD_single in Hpre. destruct Hpre as [Hkey Hv].
      destruct (from_base T c v nx) as [n nx1] eqn:E.
      destruct (fb_one c v nx n nx1 Hc Hv (Hwf v (or_introl eq_refl)) E) as [Gn [Fn _]].
      inversion H; subst.
      eapply (step_ok_ND id c d _ [(k, n)]); [exact G|exact P| | |apply dict_set_sub|apply keys_unique_dict_set; exact Hk].
      + constructor; [split; assumption|constructor].
      + simpl. rewrite app_nil_r. exact Fn.
    - (* DDel *) unfold dict_del in H. destruct (dict_has d k).
      + inversion H; subst.
        eapply (step_ok_ND id c d _ []); [exact G|exact P|apply Forall_nil|exact F0| |].
        * apply sub_app_r, dict_remove_sub.
        * apply keys_unique_dict_remove; exact Hk.
      + inversion H; subst. apply step_ok_same; assumption.
    - (* DPop *) destruct (alookup k d).
      + inversion H; subst.
        eapply (step_ok_ND id c d _ []); [exact G|exact P|apply Forall_nil|exact F0| |].
        * apply sub_app_r, dict_remove_sub.
        * apply keys_unique_dict_remove; exact Hk.
      + inversion H; subst. apply step_ok_same; assumption.
    - (* DPopitem *) destruct (dict_popitem d) as [[[k n] d']|e] eqn:E.
      + inversion H; subst. apply dict_popitem_split in E.
        eapply (step_ok_ND id c d _ []); [exact G|exact P|apply Forall_nil|exact F0| |].
        * apply sub_app_r. rewrite E. apply sub_app_r, sub_refl.
        * rewrite E in Hk. eapply keys_unique_app_l; exact Hk.
      + inversion H; subst. apply step_ok_same; assumption.
    - (* DClear *) inversion H; subst.
      eapply (step_ok_ND id c d _ []); [exact G|exact P|apply Forall_nil|exact F0|apply sub_nil|reflexivity].
    - (* DUpdate *) destruct (as_mapping v) as [od|e0] eqn:Em.
      2:{ inversion H; subst. apply step_ok_same; assumption. }
      pose proof (update_entries_wf d od (as_mapping_wf v od Em (Hwf v (or_introl eq_refl)))) as Hdata.
      destruct (upd_entries T (fun w => upd T w) c (update_entries d od) d nx) as [[d' nx'] e] eqn:E.
      assert (S : step_ok (ND id c d) nx (ND id c d') nx').
      { pose proof G as G0. apply gnode_ND in G0. destruct G0 as [Gc [_ Gd]].
        destruct (upd_entries_wfn T b HB c _ d nx d' nx' e Hdata Hc Hk) as [Hk' Hw']; [|exact E|].
        { eapply Forall_impl; [|exact Gd]. intros kn [_ [A _]]. exact A. }
        assert (Hg' : Forall (good_entry T b L) d').
        { eapply (upd_entries_clean T b L HU (fun w => upd T w) c); [|exact Hc| |exact E].
          - apply Forall_forall. intros kv _. apply upd_clean_all. exact HU.
          - eapply Forall_impl; [|exact Gd]. intros kn [A [[B _] C]]. split; [exact A|]. split; assumption. }
        split; [|split; [|simpl; auto]].
        - apply gnode_ND. split; [exact Gc|]. split; [exact Hk'|].
          rewrite Forall_forall in *. intros kn Hin. destruct (Hg' kn Hin) as [A [B _]].
          split; [exact A|]. split; [apply Hw'; exact Hin|exact B].
        - apply (ids_step_cons id (eids d) nx (eids d') nx'); [exact P|].
          eapply upd_entries_ids_step; [exact E|]. eapply ids_pre_ND; exact P. }
      destruct e; inversion H; subst; exact S.
    - (* DSetdefault *) destruct (alookup k d).
      { inversion H; subst. apply step_ok_same; assumption. }
      destruct (validate (validators_of T c) (VD [(k, v)])) eqn:Ev.
      { inversion H; subst. apply step_ok_same; assumption. }
      apply (validate_ok T b L HU c _ Hc) in Ev.
      apply val_ok_VD_single in Ev. destruct Ev as [Hkey Hv].
      destruct (from_base T c v nx) as [n nx1] eqn:E.
      destruct (fb_one c v nx n nx1 Hc Hv (Hwf v (or_introl eq_refl)) E) as [Gn [Fn _]].
      inversion H; subst.
      eapply (step_ok_ND id c d _ [(k, n)]); [exact G|exact P| | |apply dict_set_sub|apply keys_unique_dict_set; exact Hk].
      + constructor; [split; assumption|constructor].
      + simpl. rewrite app_nil_r. exact Fn.
    - (* DReset *) destruct (upd T v (ND id c d) nx) as [[n' nx'] e] eqn:E.
      assert (S : step_ok (ND id c d) nx n' nx').
      { eapply upd_step_ok; [exact G|exact P|apply Hwf; left; reflexivity|exact E]. }
      destruct e; inversion H; subst; exact S.
  Qed.

  Lemma in_nop_ok n0 n1 o nx r n2 nx2 :
    gnode n0 -> pre_nop T n0 o = Some None ->
    gnode n1 -> ids_pre (node_ids n1) nx ->
    (forall v, In v (nop_stored o) -> wf_val v = true) ->
    in_nop T n1 o nx = Some (r, n2, nx2) -> step_ok n1 nx n2 nx2.
  Proof.
    intros G0 Hpre G1 P Hwf H.
    destruct n0 as [v0|i0 c0 l0|i0 c0 d0], o as [lo|dop0]; simpl in Hpre; try discriminate;
      destruct n1 as [v1|i1 c1 l1|i1 c1 d1]; simpl in H; try discriminate;
      inversion Hpre as [Hpre']; inversion H as [H'].
    - eapply in_lop_ok; [exact G1|exact P| |exact Hpre'|exact Hwf|exact H'].
      eapply gnode_in_backend; [exact G0|reflexivity].
    - eapply in_dop_ok; [exact G1|exact P| |exact Hpre'|exact Hwf|exact H'].
      eapply gnode_in_backend; [exact G0|reflexivity].
  Qed.

  Lemma step_ok_trans a nx b' nx1 c nx2 :
    step_ok a nx b' nx1 -> step_ok b' nx1 c nx2 -> step_ok a nx c nx2.
  Proof.
    intros [_ [A2 [A3 [A4 A5]]]] [B1 [B2 [B3 [B4 B5]]]].
    split; [exact B1|]. split; [eapply ids_step_trans; eauto|].
    repeat split; congruence.
  Qed.

  Lemma step_ok_pre n nx n2 nx2 :
    ids_pre (node_ids n) nx -> step_ok n nx n2 nx2 -> ids_pre (node_ids n2) nx2.
  Proof. intros P [_ [S _]]. eapply ids_step_pre; eauto. Qed.

  Lemma find_sub_ok h root nx n1 :
    gnode root -> ids_pre (node_ids root) nx -> find_node h root = Some n1 ->
    gnode n1 /\ ids_pre (node_ids n1) nx.
  Proof.
    intros G P F. split.
    - destruct (find_replace_gnode h n1 root n1 (proj1 P) F G) as [A _]. exact A.
    - destruct (find_replace_ids h n1 root n1 (proj1 P) F) as [pre [post [E _]]].
      rewrite E in P. destruct (ids_pre_app _ _ _ P) as [_ P2].
      destruct (ids_pre_app _ _ _ P2) as [P3 _]. exact P3.
  Qed.

  Lemma replace_step_ok h root nx n1 n2 nx2 :
    gnode root -> ids_pre (node_ids root) nx -> find_node h root = Some n1 ->
    step_ok n1 nx n2 nx2 -> step_ok root nx (replace_node h n2 root) nx2.
  Proof.
    intros G P F [S1 [S2 [S3 [S4 S5]]]]. split; [|split].
    - destruct (find_replace_gnode h n2 root n1 (proj1 P) F G) as [_ A]. apply A. exact S1.
    - destruct (find_replace_ids h n2 root n1 (proj1 P) F) as [pre [post [E1 E2]]].
      rewrite E1 in P |- *. rewrite E2. apply ids_step_mid; assumption.
    - eapply replace_head; eauto.
  Qed.
End Nodes.

Lemma NoDup_keys_unique {A} (d : list (key * A)) : NoDup (map fst d) -> keys_unique d = true.
Proof.
  induction d as [|[k v] d IH]; simpl; intros H; [reflexivity|].
  inversion H as [|? ? Hn Hd]; subst. apply alookup_None in Hn. rewrite Hn. auto.
Qed.

Section NewRoots.
  Variables (T : class_table) (b : nat) (L : lang).
  Hypothesis HB : backend_has_both T b = true.
  Hypothesis HU : uniform_backend T b L = true.

  Lemma fb_entries c d : forall nx d' nx1,
    in_backend T b c = true -> val_ok L (VD d) = true ->
    Forall (fun kv : key * val => wf_val (snd kv) = true) d ->
    map_st (fun (kv : key * val) st =>
              let (n, st') := from_base T c (snd kv) st in ((fst kv, n), st')) d nx = (d', nx1) ->
    Forall (gentry T b L) d' /\ map fst d' = map fst d /\ ids_step [] nx (eids d') nx1.
  Proof.
    induction d as [|[k v] d IH]; intros nx d' nx1 Hc Hv Hw H; simpl in H.
    - inversion H; subst. split; [constructor|]. split; [reflexivity|]. apply fresh_nil. lia.
    - destruct (from_base T c v nx) as [n s1] eqn:E.
      destruct (map_st _ d s1) as [ys s2] eqn:E2. inversion H; subst. clear H.
      rewrite val_ok_VD_cons in Hv. apply andb_true_iff in Hv. destruct Hv as [Hv Hvd].
      apply andb_true_iff in Hv. destruct Hv as [Hk Hv].
      inversion Hw as [|? ? Hw1 Hw2]; subst. simpl in Hw1.
      destruct (fb_one T b L HB c v nx n s1 Hc Hv Hw1 E) as [Gn [Fn _]].
      destruct (IH s1 ys nx1 Hc Hvd Hw2 E2) as [A1 [A2 A3]].
      split; [constructor; [split; assumption|exact A1]|]. split; [simpl; congruence|].
      pose proof (ids_step_app [] [] nx (node_ids n) s1 (eids ys) nx1) as HH. simpl in HH.
      apply HH; auto. split; [constructor|intros i []].
  Qed.
End NewRoots.

(* ------------------------------------------------------------------ *)
(* objects and states                                                  *)
(* ------------------------------------------------------------------ *)

(* resource ids are unique in the resource map (MExt removes only the first binding) *)
Definition res_nodup (s : mstate) : Prop := NoDup (map fst (m_res s)).

Lemma kind_of_to_base n : kind_of (to_base n) = node_kind n.
Proof. destruct n; reflexivity. Qed.

Section Machine.
  Variable T : class_table.
  Hypothesis HT : table_ok T = true.

  Notation bk o := (backend_of T (o_cls o)).
  Notation lg o := (lang_of T (o_cls o)).

  Lemma obj_inv_iff nx o :
    obj_inv T nx o <->
    o_cls o < length T /\ node_is_container (o_root o) = true /\ node_cls (o_root o) = Some (o_cls o)
    /\ gnode T (bk o) (lg o) (o_root o) /\ ids_pre (node_ids (o_root o)) nx.
  Proof.
    unfold gnode, wfn, ids_pre. split.
    - intros []. repeat split; assumption.
    - intros [H1 [H2 [H3 [[[H4 [H5 [H6 H7]]] H8] [H9 H10]]]]]. constructor; assumption.
  Qed.

  Lemma obj_inv_mono nx nx' o : obj_inv T nx o -> nx <= nx' -> obj_inv T nx' o.
  Proof.
    intros H Hle. apply obj_inv_iff in H. apply obj_inv_iff.
    destruct H as [H1 [H2 [H3 [H4 H5]]]].
    split; [exact H1|]. split; [exact H2|]. split; [exact H3|]. split; [exact H4|].
    eapply ids_pre_mono; eauto.
  Qed.

  Lemma obj_inv_step nx o root' nx' :
    obj_inv T nx o -> step_ok T (bk o) (lg o) (o_root o) nx root' nx' ->
    obj_inv T nx' (set_root o root').
  Proof.
    intros H S. apply obj_inv_iff in H. apply obj_inv_iff.
    destruct H as [H1 [H2 [H3 [H4 H5]]]]. pose proof S as [S1 [S2 [S3 [S4 S5]]]]. simpl.
    split; [exact H1|]. split; [|split; [congruence|split; [exact S1|]]].
    - apply container_iff_id. rewrite S3. apply container_iff_id. exact H2.
    - eapply ids_step_pre; eauto.
  Qed.

  (* every object of [objs'] has a counterpart with the same class, resource and kind *)
  Definition objs_sim (objs objs' : list (nat * obj)) : Prop :=
    forall oid o', nlookup oid objs' = Some o' ->
      exists o, nlookup oid objs = Some o /\ o_cls o' = o_cls o /\ o_rid o' = o_rid o
                /\ node_kind (o_root o') = node_kind (o_root o).

  Lemma objs_sim_refl objs : objs_sim objs objs.
  Proof. intros oid o H. exists o. auto. Qed.

  Lemma objs_sim_nset objs oid ob root' :
    nlookup oid objs = Some ob -> node_kind root' = node_kind (o_root ob) ->
    objs_sim objs (nset oid (set_root ob root') objs).
  Proof.
    intros Ho Hk oid' o' H. rewrite nlookup_nset in H. destruct (Nat.eqb oid' oid) eqn:E.
    - apply Nat.eqb_eq in E. subst oid'. inversion H; subst o'. exists ob. simpl. auto.
    - exists o'. auto.
  Qed.

  Lemma same_family_sim s s' :
    objs_sim (m_objs s) (m_objs s') -> same_family T s -> same_family T s'.
  Proof.
    intros Sim SF oid1 o1 oid2 o2 H1 H2 Hr.
    destruct (Sim _ _ H1) as [p1 [A1 [A2 [A3 A4]]]]. destruct (Sim _ _ H2) as [p2 [B1 [B2 [B3 B4]]]].
    rewrite A2, A4, B2, B4. apply (SF oid1 p1 oid2 p2 A1 B1). congruence.
  Qed.

  Lemma content_ok_sim o o' c :
    o_cls o' = o_cls o -> node_kind (o_root o') = node_kind (o_root o) ->
    content_ok T o c -> content_ok T o' c.
  Proof. unfold content_ok. intros -> ->. auto. Qed.

  Lemma res_valid_sim s s' :
    objs_sim (m_objs s) (m_objs s') -> m_res s' = m_res s -> res_valid T s -> res_valid T s'.
  Proof.
    intros Sim Hr RV oid o' c H1 H2. destruct (Sim _ _ H1) as [p [A1 [A2 [A3 A4]]]].
    rewrite Hr, A3 in H2. eapply content_ok_sim; eauto.
  Qed.

  Lemma Inv_nset s oid ob root' nx' res' wr' :
    Inv T s -> nlookup oid (m_objs s) = Some ob ->
    step_ok T (bk ob) (lg ob) (o_root ob) (m_next s) root' nx' ->
    Inv T {| m_res := res'; m_writes := wr';
             m_objs := nset oid (set_root ob root') (m_objs s); m_next := nx' |}.
  Proof.
    intros I Ho S oid' o' H. simpl in *. rewrite nlookup_nset in H.
    destruct (Nat.eqb oid' oid).
    - inversion H; subst o'. eapply obj_inv_step; [apply (I oid ob Ho)|exact S].
    - eapply obj_inv_mono; [apply (I oid' o' H)|]. destruct S as [_ [[S _] _]]. exact S.
  Qed.

  Definition good_state (s : mstate) : Prop :=
    Inv T s /\ res_valid T s /\ same_family T s /\ res_nodup s.

  Lemma keep_root_pres s oid ob root' nx' :
    good_state s -> nlookup oid (m_objs s) = Some ob ->
    step_ok T (bk ob) (lg ob) (o_root ob) (m_next s) root' nx' ->
    good_state (keep_root s oid ob root' nx').
  Proof.
    intros [I [RV [SF RN]]] Ho S.
    assert (Sim : objs_sim (m_objs s) (m_objs (keep_root s oid ob root' nx'))).
    { apply objs_sim_nset; [exact Ho|]. destruct S as [_ [_ [_ [_ S]]]]. exact S. }
    split; [|split; [|split]].
    - apply Inv_nset; assumption.
    - eapply res_valid_sim; [exact Sim|reflexivity|exact RV].
    - eapply same_family_sim; [exact Sim|exact SF].
    - exact RN.
  Qed.

  Lemma save_root_pres s oid ob root' nx' :
    good_state s -> nlookup oid (m_objs s) = Some ob ->
    step_ok T (bk ob) (lg ob) (o_root ob) (m_next s) root' nx' ->
    good_state (save_root s oid ob root' nx').
  Proof.
    intros [I [RV [SF RN]]] Ho S.
    assert (Sim : objs_sim (m_objs s) (m_objs (save_root s oid ob root' nx'))).
    { apply objs_sim_nset; [exact Ho|]. destruct S as [_ [_ [_ [_ S]]]]. exact S. }
    split; [|split; [|split]].
    - apply Inv_nset; assumption.
    - intros oid' o' c H1 H2. destruct (Sim _ _ H1) as [p [A1 [A2 [A3 A4]]]].
      simpl in H2. rewrite nlookup_nset in H2. destruct (Nat.eqb (o_rid o') (o_rid ob)) eqn:E.
      + apply Nat.eqb_eq in E. inversion H2; subst c.
        destruct (SF oid' p oid ob A1 Ho) as [B1 B2]; [congruence|].
        destruct S as [[Sw Sc] [_ [_ [_ Sk]]]]. unfold content_ok.
        rewrite A2, B1, A4, B2. split; [exact Sc|]. split.
        * rewrite <- nku_wf. apply Sw.
        * rewrite kind_of_to_base. exact Sk.
      + rewrite A3 in H2. eapply content_ok_sim; [exact A2|exact A4|]. eapply RV; eauto.
    - eapply same_family_sim; [exact Sim|exact SF].
    - unfold res_nodup. simpl. apply nset_nodup. exact RN.
  Qed.

  Lemma obj_facts s oid ob :
    Inv T s -> nlookup oid (m_objs s) = Some ob ->
    backend_has_both T (bk ob) = true /\ uniform_backend T (bk ob) (lg ob) = true
    /\ gnode T (bk ob) (lg ob) (o_root ob) /\ ids_pre (node_ids (o_root ob)) (m_next s).
  Proof.
    intros I Ho. pose proof (I oid ob Ho) as H. apply obj_inv_iff in H.
    destruct H as [H1 [_ [_ [H4 H5]]]]. destruct (cls_facts T (o_cls ob) HT H1) as [_ [A [B _]]].
    auto.
  Qed.

  Lemma load_ok s oid ob (sk : bool) root1 nx1 e :
    good_state s -> nlookup oid (m_objs s) = Some ob ->
    (if sk then (o_root ob, m_next s, None) else load_root T s ob) = (root1, nx1, e) ->
    step_ok T (bk ob) (lg ob) (o_root ob) (m_next s) root1 nx1.
  Proof.
    intros [I [RV _]] Ho H. destruct (obj_facts s oid ob I Ho) as [HB [HU [G P]]].
    assert (Same : step_ok T (bk ob) (lg ob) (o_root ob) (m_next s) (o_root ob) (m_next s))
      by (apply step_ok_same; assumption).
    destruct sk; [inversion H; subst; exact Same|].
    unfold load_root in H. destruct (nlookup (o_rid ob) (m_res s)) as [content|] eqn:Ec.
    - eapply upd_step_ok; [exact HB|exact HU|exact G|exact P| |exact H].
      destruct (RV oid ob content Ho Ec) as [_ [W _]]. exact W.
    - inversion H; subst; exact Same.
  Qed.

  Lemma mop_cases s oid hid o :
    good_state s -> (forall v, In v (nop_stored o) -> wf_val v = true) ->
    fst (step T s (MOp oid hid o)) = s
    \/ exists ob root' nx', nlookup oid (m_objs s) = Some ob
         /\ step_ok T (bk ob) (lg ob) (o_root ob) (m_next s) root' nx'
         /\ (fst (step T s (MOp oid hid o)) = keep_root s oid ob root' nx'
             \/ fst (step T s (MOp oid hid o)) = save_root s oid ob root' nx').
  Proof.
    intros GS Hwf. cbn [step].
    destruct (nlookup oid (m_objs s)) as [ob|] eqn:Ho; [|left; reflexivity].
    destruct (find_node hid (o_root ob)) as [n0|] eqn:F0; [|left; reflexivity].
    destruct (pre_nop T n0 o) as [[e|]|] eqn:Epre; try (left; reflexivity).
    destruct (obj_facts s oid ob (proj1 GS) Ho) as [HB [HU [G P]]].
    match goal with
    | |- context [if ?bb then (o_root ob, m_next s, None) else load_root T s ob] => set (sk := bb)
    end.
    destruct (if sk then (o_root ob, m_next s, None) else load_root T s ob)
      as [[root1 nx1] eo] eqn:El.
    pose proof (load_ok s oid ob sk root1 nx1 eo GS Ho El) as S1.
    assert (Keep1 : forall st, st = keep_root s oid ob root1 nx1 \/ st = save_root s oid ob root1 nx1 ->
              st = s \/ exists ob0 root' nx', Some ob = Some ob0
                /\ step_ok T (bk ob0) (lg ob0) (o_root ob0) (m_next s) root' nx'
                /\ (st = keep_root s oid ob0 root' nx' \/ st = save_root s oid ob0 root' nx')).
    { intros st Hst. right. exists ob, root1, nx1. auto. }
    destruct eo as [e|]; [apply Keep1; left; reflexivity|].
    pose proof S1 as [G1 _]. pose proof (step_ok_pre _ _ _ _ _ _ _ P S1) as P1.
    destruct (find_node hid root1) as [n1|] eqn:F1.
    2:{ destruct (nop_is_read o); apply Keep1; [left|right]; reflexivity. }
    destruct (in_nop T n1 o nx1) as [[[[r h] n2] nx2]|] eqn:Ein; [|left; reflexivity].
    destruct (find_sub_ok T (bk ob) (lg ob) hid (o_root ob) (m_next s) n0 G P F0) as [G0 _].
    destruct (find_sub_ok T (bk ob) (lg ob) hid root1 nx1 n1 G1 P1 F1) as [Gn1 Pn1].
    pose proof (in_nop_ok T (bk ob) (lg ob) HB HU n0 n1 o nx1 (r, h) n2 nx2 G0 Epre Gn1 Pn1 Hwf Ein) as S2.
    pose proof (replace_step_ok T (bk ob) (lg ob) hid root1 nx1 n1 n2 nx2 G1 P1 F1 S2) as S3.
    pose proof (step_ok_trans _ _ _ _ _ _ _ _ _ S1 S3) as S4.
    assert (Keep2 : forall st, st = keep_root s oid ob (replace_node hid n2 root1) nx2
                             \/ st = save_root s oid ob (replace_node hid n2 root1) nx2 ->
              st = s \/ exists ob0 root' nx', Some ob = Some ob0
                /\ step_ok T (bk ob0) (lg ob0) (o_root ob0) (m_next s) root' nx'
                /\ (st = keep_root s oid ob0 root' nx' \/ st = save_root s oid ob0 root' nx')).
    { intros st Hst. right. exists ob, (replace_node hid n2 root1), nx2. auto. }
    destruct (nop_is_read o); [apply Keep2; left; reflexivity|].
    apply Keep2; right; reflexivity.
  Qed.

  Lemma mop_ok s oid hid o :
    good_state s -> (forall v, In v (nop_stored o) -> wf_val v = true) ->
    good_state (fst (step T s (MOp oid hid o))).
  Proof.
    intros GS Hwf. destruct (mop_cases s oid hid o GS Hwf) as [E|[ob [root' [nx' [Ho [S [E|E]]]]]]];
      rewrite E.
    - exact GS.
    - apply keep_root_pres; assumption.
    - apply save_root_pres; assumption.
  Qed.

  Lemma mtouch_ok s oid mut : good_state s -> good_state (fst (step T s (MTouch oid mut))).
  Proof.
    intros GS. cbn [step]. destruct (nlookup oid (m_objs s)) as [ob|] eqn:Ho; [|exact GS].
    destruct (load_root T s ob) as [[root1 nx1] eo] eqn:El.
    pose proof (load_ok s oid ob false root1 nx1 eo GS Ho El) as S1.
    destruct eo as [e|]; [apply keep_root_pres; assumption|].
    destruct mut; [apply save_root_pres|apply keep_root_pres]; assumption.
  Qed.

  Lemma mext_ok s rid content :
    good_state s -> op_admissible T s (MExt rid content) ->
    good_state (fst (step T s (MExt rid content))).
  Proof.
    intros [I [RV [SF RN]]] Adm. cbn [step fst]. split; [|split; [|split]].
    - exact I.
    - intros oid o c H1 H2. cbn [m_objs m_res] in *. destruct content as [v|].
      + rewrite nlookup_nset in H2. destruct (Nat.eqb (o_rid o) rid) eqn:E.
        * apply Nat.eqb_eq in E. inversion H2; subst c. apply (Adm v eq_refl oid o H1 E).
        * eapply RV; eauto.
      + rewrite nlookup_nremove in H2 by exact RN. destruct (Nat.eqb (o_rid o) rid); [discriminate|].
        eapply RV; eauto.
    - exact SF.
    - unfold res_nodup. cbn [m_res]. destruct content; [apply nset_nodup|apply nremove_nodup]; exact RN.
  Qed.

  Lemma new_obj_pres s oid c rid data root nx' :
    good_state s -> op_admissible T s (MNew oid c rid data) ->
    obj_inv T nx' {| o_cls := c; o_rid := rid; o_root := root |} -> m_next s <= nx' ->
    node_kind root = c_kind (get_cls T c) ->
    good_state {| m_res := m_res s; m_writes := m_writes s;
                  m_objs := nset oid {| o_cls := c; o_rid := rid; o_root := root |} (m_objs s);
                  m_next := nx' |}.
  Proof.
    intros [I [RV [SF RN]]] [A1 [A2 [A3 [A4 A5]]]] OI Hle Hk. split; [|split; [|split]].
    - intros oid' o' H. cbn [m_objs m_next] in *. rewrite nlookup_nset in H.
      destruct (Nat.eqb oid' oid).
      + inversion H; subst o'. exact OI.
      + eapply obj_inv_mono; [apply (I oid' o' H)|exact Hle].
    - intros oid' o' cnt H1 H2. cbn [m_objs m_res] in *. rewrite nlookup_nset in H1.
      destruct (Nat.eqb oid' oid).
      + inversion H1; subst o'. cbn [o_rid] in H2. destruct (A4 cnt H2) as [B1 [B2 B3]].
        unfold content_ok. cbn [o_cls o_root]. rewrite Hk. auto.
      + eapply RV; eauto.
    - intros oid1 o1 oid2 o2 H1 H2 Hr. cbn [m_objs] in *. rewrite nlookup_nset in H1, H2.
      destruct (Nat.eqb oid1 oid), (Nat.eqb oid2 oid).
      + inversion H1; inversion H2; subst. auto.
      + inversion H1; subst o1. cbn [o_rid o_cls o_root] in *.
        destruct (A3 oid2 o2 H2 (eq_sym Hr)) as [B1 B2]. rewrite Hk. auto.
      + inversion H2; subst o2. cbn [o_rid o_cls o_root] in *.
        destruct (A3 oid1 o1 H1 Hr) as [B1 B2]. rewrite Hk. auto.
      + eapply SF; eauto.
    - exact RN.
  Qed.

  Lemma mnew_ok s oid c rid data :
    good_state s -> op_admissible T s (MNew oid c rid data) ->
    good_state (fst (step T s (MNew oid c rid data))).
  Proof.
    intros GS Adm. pose proof Adm as [Hc [_ [_ [_ Hwf]]]].
    destruct (cls_facts T c HT Hc) as [Hb [HB [HU Hkind]]].
    cbn [step]. destruct data as [v|].
    - destruct (validate (validators_of T c) v) eqn:Ev; [exact GS|].
      apply (validate_ok T _ _ HU c v Hb) in Ev. specialize (Hwf v eq_refl).
      destruct (c_kind (get_cls T c)) eqn:Ek; destruct v as [sc|l|d]; try exact GS.
      + (* list *)
        destruct (map_st (from_base T c) l (S (m_next s))) as [l' nx] eqn:E. cbn [fst].
        apply val_ok_VL in Ev. apply wf_val_VL in Hwf.
        destruct (fb_many T _ _ HB c l (S (m_next s)) l' nx Hb Ev Hwf E) as [Gl [F1 [F2 F3]]].
        apply (new_obj_pres s oid c rid (Some (VL l))); [exact GS|exact Adm| |lia|simpl; congruence].
        apply obj_inv_iff. cbn [o_cls o_root]. split; [exact Hc|]. split; [reflexivity|].
        split; [reflexivity|]. split.
        * apply gnode_NL. split; [|exact Gl]. split; [exact Hb|]. rewrite Ek. reflexivity.
        * split.
          -- simpl. constructor; [|exact F2]. intros Hin. destruct (F3 _ Hin) as [[]|Hr]. lia.
          -- intros i [<-|Hi]; [lia|]. destruct (F3 _ Hi) as [[]|Hr]. lia.
      + (* dict *)
        destruct (map_st _ d (S (m_next s))) as [d' nx] eqn:E. cbn [fst].
        pose proof (wf_val_VD _ Hwf) as Hwd.
        destruct (fb_entries T _ _ HB c d (S (m_next s)) d' nx Hb Ev Hwd E) as [Gd [Hkeys [F1 [F2 F3]]]].
        apply (new_obj_pres s oid c rid (Some (VD d))); [exact GS|exact Adm| |lia|simpl; congruence].
        apply obj_inv_iff. cbn [o_cls o_root]. split; [exact Hc|]. split; [reflexivity|].
        split; [reflexivity|]. split.
        * apply gnode_ND. split; [split; [exact Hb|rewrite Ek; reflexivity]|]. split; [|exact Gd].
          apply NoDup_keys_unique. rewrite Hkeys. apply keys_unique_NoDup.
          simpl in Hwf. apply andb_true_iff in Hwf. tauto.
        * split.
          -- simpl. constructor; [|exact F2]. intros Hin. destruct (F3 _ Hin) as [[]|Hr]. lia.
          -- intros i [<-|Hi]; [lia|]. destruct (F3 _ Hi) as [[]|Hr]. lia.
    - (* empty collection *) cbn [fst].
      apply (new_obj_pres s oid c rid None); [exact GS|exact Adm| |lia|].
      + apply obj_inv_iff. cbn [o_cls o_root]. unfold empty_root.
        split; [exact Hc|]. destruct Hkind as [Ek|Ek]; rewrite Ek.
        * split; [reflexivity|]. split; [reflexivity|]. split.
          -- apply gnode_NL. split; [|constructor]. split; [exact Hb|]. rewrite Ek. reflexivity.
          -- split; [simpl; constructor; [intros []|constructor]|]. intros i [<-|[]]. lia.
        * split; [reflexivity|]. split; [reflexivity|]. split.
          -- apply gnode_ND. split; [split; [exact Hb|rewrite Ek; reflexivity]|].
             split; [reflexivity|constructor].
          -- split; [simpl; constructor; [intros []|constructor]|]. intros i [<-|[]]. lia.
      + unfold empty_root. destruct Hkind as [Ek|Ek]; rewrite Ek; reflexivity.
  Qed.
End Machine.

(* ------------------------------------------------------------------ *)
(* counterexamples to the statements as originally given               *)
(* ------------------------------------------------------------------ *)

Module Counterexamples.
  Definition T2 : class_table := [
    {| c_name := []; c_kind := KDict; c_backend := 0; c_validators := [VRequireStringKey];
       c_attr := false; c_buf := BufNone; c_threading := false; c_protected := [] |};
    {| c_name := []; c_kind := KList; c_backend := 0; c_validators := [VRequireStringKey];
       c_attr := false; c_buf := BufNone; c_threading := false; c_protected := [] |}].

  Lemma T2_ok : table_ok T2 = true.
  Proof. vm_compute. reflexivity. Qed.

  (* (1) a mutator argument whose dict keys are not unique (impossible for a Python dict, but
         expressible in [val]) is accepted by the validators and breaks [oi_keys] *)
  Definition s1 : mstate := fst (step T2 m_init (MNew 0 1 0 None)).
  Definition dupv : val := VD [(KStr [], VS SNull); (KStr [], VS SNull)].
  Definition s2 : mstate := fst (step T2 s1 (MOp 0 0 (OL (LAppend dupv)))).

  Lemma cex_dup_keys :
    op_admissible T2 s1 (MOp 0 0 (OL (LAppend dupv)))
    /\ exists o, nlookup 0 (m_objs s2) = Some o /\ node_keys_unique (o_root o) = false.
  Proof. split; [exact I|]. eexists. split; [vm_compute; reflexivity|vm_compute; reflexivity]. Qed.

  Lemma cex_dup_keys_not_inv : ~ Inv T2 s2.
  Proof.
    intros H. destruct cex_dup_keys as [_ [o [Ho Hk]]].
    pose proof (oi_keys _ _ _ (H 0 o Ho)) as K. congruence.
  Qed.

  (* (2) a resource map with a duplicated resource id: MExt rid None removes only the first
         binding, the stale second one becomes visible *)
  Definition s3 : mstate :=
    {| m_res := [(0, VD []); (0, VS SNull)]; m_writes := [];
       m_objs := [(0, {| o_cls := 0; o_rid := 0; o_root := ND 0 0 [] |})]; m_next := 1 |}.

  Lemma cex_res_dup_before : res_valid T2 s3.
  Proof.
    intros oid o c H1 H2. destruct oid as [|oid]; simpl in H1; [|discriminate].
    inversion H1; subst o. simpl in H2. inversion H2; subst c. vm_compute. auto.
  Qed.

  Lemma cex_res_dup_after : ~ res_valid T2 (fst (step T2 s3 (MExt 0 None))).
  Proof.
    intros H. specialize (H 0 _ (VS SNull) eq_refl eq_refl). destruct H as [_ [_ H]]. discriminate.
  Qed.
End Counterexamples.

(* ------------------------------------------------------------------ *)
(* the invariant                                                       *)
(* ------------------------------------------------------------------ *)

(* C11 / C18 as an invariant: whatever operation is issued, with ARBITRARY (possibly forbidden) argument values,
   through any handle, every object's tree stays a clean, well-formed member of its family, and what
   is in the backend stays valid *)
(* CHANGED: two extra hypotheses, and [res_nodup] as a fourth conjunct of the conclusion.
   (a) [op_args_wf op]: the values a mutator stores have unique dict keys ([wf_val]) -- a
       representation assumption (Python dicts cannot have duplicate keys), NOT a restriction on
       forbidden data (non-string keys, non-JSON leaves, dotted keys stay allowed).  Without it the
       statement is false: see [Counterexamples.cex_dup_keys_not_inv].
   (b) [res_nodup s]: resource ids are unique in [m_res] (true of [m_init], preserved by every step).
       Without it [MExt rid None], which removes only the first binding, can expose a stale second
       binding: see [Counterexamples.cex_res_dup_after]. *)
Theorem step_preserves_inv T s op :
  table_ok T = true -> Inv T s -> res_valid T s -> same_family T s -> res_nodup s ->
  op_admissible T s op -> op_args_wf op ->
  Inv T (fst (step T s op)) /\ res_valid T (fst (step T s op)) /\ same_family T (fst (step T s op))
  /\ res_nodup (fst (step T s op)).
Proof.
  intros HT I RV SF RN Adm Hwf.
  assert (GS : good_state T s) by exact (conj I (conj RV (conj SF RN))).
  destruct op as [oid c rid data|rid content|oid hid o|oid mut].
  - apply mnew_ok; assumption.
  - apply mext_ok; assumption.
  - apply mop_ok; assumption.
  - apply mtouch_ok; assumption.
Qed.

Lemma run_snoc T pre op s :
  fst (run T (pre ++ [op]) s) = fst (step T (fst (run T pre s)) op).
Proof.
  unfold run. rewrite fold_left_app. simpl.
  destruct (step T (fst (fold_left _ pre (s, []))) op). reflexivity.
Qed.

(* CHANGED: same two additions as in [step_preserves_inv]. *)
Theorem run_preserves_inv T ops : forall s,
  table_ok T = true -> Inv T s -> res_valid T s -> same_family T s -> res_nodup s ->
  (forall pre op post, ops = pre ++ op :: post ->
     op_admissible T (fst (run T pre s)) op /\ op_args_wf op) ->
  Inv T (fst (run T ops s)) /\ res_valid T (fst (run T ops s)) /\ same_family T (fst (run T ops s))
  /\ res_nodup (fst (run T ops s)).
Proof.
  induction ops as [|op ops IH] using rev_ind; intros s HT I RV SF RN Adm.
  - simpl. auto.
  - rewrite run_snoc.
    destruct (IH s HT I RV SF RN) as [I' [RV' [SF' RN']]].
    { intros pre op0 post E. apply (Adm pre op0 (post ++ [op])). rewrite E, <- app_assoc. reflexivity. }
    destruct (Adm ops op [] eq_refl) as [A1 A2].
    apply step_preserves_inv; assumption.
Qed.

Lemma inv_init T : Inv T m_init /\ res_valid T m_init /\ same_family T m_init.
Proof.
  split; [|split].
  - intros oid o H. discriminate.
  - intros oid o c H. discriminate.
  - intros oid1 o1 oid2 o2 H. discriminate.
Qed.

Lemma res_nodup_init : res_nodup m_init.
Proof. constructor. Qed.

Print Assumptions table_ok_cls.
Print Assumptions lang3_str_keys.
Print Assumptions step_preserves_inv.
Print Assumptions run_preserves_inv.
Print Assumptions inv_init.
Print Assumptions res_nodup_init.
Print Assumptions Counterexamples.cex_dup_keys_not_inv.
Print Assumptions Counterexamples.cex_res_dup_after.
