From Coq Require Import List ZArith Bool Lia NArith.
Import ListNotations.

Definition str := list N.
Definition str_eqb (a b : str) : bool := if list_eq_dec N.eq_dec a b then true else false.

Inductive scalar := SNull | SBool (b:bool) | SInt (z:Z) | SStr (s:str).
Inductive json := JS (s:scalar) | JL (l:list json) | JD (d:list (str*json)).

Inductive node := NS (s:scalar) | NL (id:nat) (l:list node) | ND (id:nat) (d:list (str*node)).

Fixpoint to_base (n:node) : json :=
  match n with
  | NS s => JS s
  | NL _ l => JL (map to_base l)
  | ND _ d => JD (map (fun kv => (fst kv, to_base (snd kv))) d)
  end.

(* state monad over fresh-id counter *)
Definition M (A:Type) := nat -> A * nat.
Definition ret {A} (a:A) : M A := fun c => (a,c).
Definition bind {A B} (m:M A) (f:A -> M B) : M B := fun c => let '(a,c') := m c in f a c'.
Definition fresh : M nat := fun c => (c, S c).

Fixpoint from_base (j:json) : M node :=
  match j with
  | JS s => ret (NS s)
  | JL l => bind fresh (fun id =>
            bind ((fix go (l:list json) : M (list node) :=
                    match l with [] => ret [] | x::r => bind (from_base x) (fun n => bind (go r) (fun ns => ret (n::ns))) end) l)
                 (fun ns => ret (NL id ns)))
  | JD d => bind fresh (fun id =>
            bind ((fix go (d:list (str*json)) : M (list (str*node)) :=
                    match d with [] => ret [] | (k,x)::r => bind (from_base x) (fun n => bind (go r) (fun ns => ret ((k,n)::ns))) end) d)
                 (fun ns => ret (ND id ns)))
  end.

Fixpoint assoc {A} (k:str) (d:list (str*A)) : option A :=
  match d with [] => None | (k',v)::r => if str_eqb k k' then Some v else assoc k r end.
Fixpoint assoc_set {A} (k:str) (v:A) (d:list (str*A)) : list (str*A) :=
  match d with [] => [(k,v)] | (k',v')::r => if str_eqb k k' then (k,v)::r else (k',v')::assoc_set k v r end.

(* python == between plain json and node (simplified: structural) *)
Fixpoint json_eqb (a b:json) {struct a} : bool :=
  match a, b with
  | JS x, JS y => match x,y with SNull,SNull => true | SBool p, SBool q => Bool.eqb p q | SInt p, SInt q => Z.eqb p q
                  | SStr p, SStr q => str_eqb p q | _,_ => false end
  | JL x, JL y => (fix go (x y:list json) := match x,y with [],[] => true | p::x', q::y' => json_eqb p q && go x' y' | _,_ => false end) x y
  | JD x, JD y => Nat.eqb (length x) (length y) &&
       (fix go (x:list (str*json)) := match x with [] => true | (k,p)::x' => match assoc k y with Some q => json_eqb p q | None => false end && go x' end) x
  | _,_ => false
  end.

(* upd j n : merge plain data j into existing node n ; recursion on j *)
Fixpoint upd (j:json) (n:node) {struct j} : M node :=
  match j, n with
  | JD items, ND id ch =>
      bind ((fix go (items:list (str*json)) (acc:list (str*node)) : M (list (str*node)) :=
               match items with
               | [] => ret acc
               | (k,jv)::rest =>
                   match assoc k ch with
                   | None => bind (from_base jv) (fun nv => go rest (assoc_set k nv acc))
                   | Some ex =>
                       if json_eqb jv (to_base ex) then go rest acc
                       else bind (upd jv ex) (fun nv => go rest (assoc_set k nv acc))
                   end
               end) items (filter (fun kv => match assoc (fst kv) items with Some _ => true | None => false end) ch))
           (fun ch' => ret (ND id ch'))
  | JL items, NL id ch =>
      bind ((fix go (items:list json) (ch:list node) : M (list node) :=
               match items, ch with
               | [], _ => ret []
               | jv::rest, [] => bind (from_base jv) (fun nv => bind (go rest []) (fun r => ret (nv::r)))
               | jv::rest, ex::ch' =>
                   bind (if json_eqb jv (to_base ex) then ret ex else upd jv ex) (fun nv =>
                   bind (go rest ch') (fun r => ret (nv::r)))
               end) items ch)
           (fun ch' => ret (NL id ch'))
  | _, _ => from_base j   (* kind mismatch / scalar: replace *)
  end.

Definition t0 := fst (from_base (JD [([97%N], JD [([98%N], JS (SInt 1))]); ([108%N], JL [JS (SInt 1); JL [JS (SInt 2)]])]) 1).
Eval vm_compute in t0.
Eval vm_compute in fst (upd (JD [([108%N], JL [JS (SInt 1); JL [JS (SInt 3)]; JD []]); ([97%N], JD [([99%N], JS SNull)])]) t0 100).

Require Import Extraction ExtrOcamlBasic.
Extraction "proto.ml" upd from_base to_base.
