import json, os, tempfile, sys, traceback, time, random
sys.path.insert(0, '/repo')
from synced_collections.backends.collection_json import *
from synced_collections.errors import *
d = tempfile.mkdtemp()
def fn(n): return os.path.join(d, n)
def store(f, data):
    with open(f, 'w') as fh: json.dump(data, fh)
    st = os.stat(f); os.utime(f, ns=(st.st_atime_ns, st.st_mtime_ns + 10_000_000))
def disk(f):
    try:
        with open(f) as fh: return json.load(fh)
    except FileNotFoundError: return 'MISSING'
def sec(t): print('\n===', t)
for D in (BufferedJSONDict, MemoryBufferedJSONDict):
    sec(f'{D.__name__}: retained child handle of A, B touches buffer first')
    f = fn(D.__name__+'.json'); store(f, {'l': [1]})
    A = D(f); B = D(f); c = A['l']
    with D.buffer_backend():
        B['x'] = 1
        c.append(2)
        print('  inside: A', A(), 'B', B(), 'c', c())
    print('  after: disk', disk(f), ' expected l=[1,2], x=1')
    sec(f'{D.__name__}: retained child handle of A obtained inside, then B writes, then child used')
    store(f, {'l': [1]})
    with D.buffer_backend():
        c = A['l']; B['l'].append(7); c.append(2)
        print('  inside: A', A(), 'B', B(), 'c', c())
    print('  after: disk', disk(f), ' expected l=[1,7,2]')
    sec(f'{D.__name__}: single object retained child across ctx boundary')
    store(f, {'l': [1]}); c = A['l']
    with A.buffered:
        c.append(3); print('  in', A(), disk(f))
    c.append(4); print('  out', A(), disk(f))

sec('C15 random accounting check (serialized: size == sum len(contents); memory: == #modified)')
random.seed(1)
for D in (BufferedJSONDict, MemoryBufferedJSONDict):
    files = [fn(f'{D.__name__}{i}.json') for i in range(3)]
    for f in files: store(f, {'v': 0})
    objs = [D(f) for f in files] + [D(files[0])]
    bad = 0; maxover = 0
    def recompute():
        if D is BufferedJSONDict: return sum(len(v['contents']) for v in D._buffer.values())
        return sum(1 for v in D._buffer.values() if v['modified'])
    for trial in range(300):
        cap = random.choice([0, 1, 2, 10, 30, 100, 10**6]) 
        try:
            with D.buffer_backend(buffer_capacity=cap):
                for step in range(random.randint(1, 8)):
                    o = random.choice(objs); k = random.choice('abc')
                    op = random.choice(['set', 'del', 'read', 'clear', 'reset', 'update', 'ctx', 'setcap'])
                    try:
                        if op == 'set': o[k] = 'x' * random.randint(0, 20)
                        elif op == 'del': del o[k]
                        elif op == 'read': o()
                        elif op == 'clear': o.clear()
                        elif op == 'reset': o.reset({k: 1})
                        elif op == 'update': o.update({k: [1, 2]})
                        elif op == 'ctx':
                            with o.buffered: o[k] = 2
                        elif op == 'setcap': D.set_buffer_capacity(random.choice([0, 5, 50]))
                    except KeyError: pass
                    sz = D.get_current_buffer_size()
                    if sz != recompute(): bad += 1; print('   MISMATCH', D.__name__, op, sz, recompute()); break
                    if sz > D.get_buffer_capacity(): maxover += 1; print('   OVER CAP after', op, sz, D.get_buffer_capacity())
        except Exception as e:
            print('   EXC', type(e).__name__, e); traceback.print_exc(); break
        if D.get_current_buffer_size() != 0 or D._buffer: print('   NONZERO after exit', D.get_current_buffer_size(), list(D._buffer)); break
    print(' ', D.__name__, 'mismatches', bad, 'overcap', maxover, 'cap now', D.get_buffer_capacity())
