(* C17 — Reading never writes.  Property theorems only. *)
From Coq Require Import List Bool.
From SC Require Import Model.Val Model.Ops Model.Class Model.Tree Model.Machine Proofs.MachineReads.
From SC Require Import Model.Buffer Proofs.TreeDefs Proofs.BufferDefs Proofs.BufferInv.
Import ListNotations.

(* every read operation (item access, get, len, iteration, membership, comparisons, (),
   keys/values/items) through a root or a nested handle, attached or detached, from every
   state: no resource changes content, none is created, nothing is written *)
Theorem C17_reads_pure : forall T s op,
  mop_is_read op = true ->
  m_res (fst (step T s op)) = m_res s /\ m_writes (fst (step T s op)) = m_writes s.
Proof. exact step_read_pure. Qed.
Print Assumptions C17_reads_pure.

Theorem C17_read_sequences_pure : forall T ops s,
  forallb mop_is_read ops = true ->
  m_res (fst (fold_left (fun st op => (fst (step T (fst st) op), tt)) ops (s, tt))) = m_res s
  /\ m_writes (fst (fold_left (fun st op => (fst (step T (fst st) op), tt)) ops (s, tt))) = m_writes s.
Proof. exact run_reads_pure. Qed.
Print Assumptions C17_read_sequences_pure.

(* buffered collections: any sequence of reads and of context entries / exits (both kinds, any nesting,
   capacity changes and the forced flushes they cause included), both strategies: no file changes content,
   stamp or existence, nothing is written — provided nothing in the buffer was modified to begin with *)
Theorem C17_readonly_session : forall strat blen ops s,
  forallb bop_is_readonly ops = true -> clean_entries strat s -> NoDup (map fst (b_buffer s)) ->
  b_files (brun strat blen ops s) = b_files s /\ b_writes (brun strat blen ops s) = b_writes s.
Proof. exact readonly_run_pure. Qed.
Print Assumptions C17_readonly_session.

Theorem C17_readonly_step : forall strat blen s op,
  bop_is_readonly op = true -> clean_entries strat s -> NoDup (map fst (b_buffer s)) ->
  let s' := fst (bstep_fn strat blen s op) in
  b_files s' = b_files s /\ b_writes s' = b_writes s /\ clean_entries strat s' /\ NoDup (map fst (b_buffer s')).
Proof. exact readonly_step_pure. Qed.
Print Assumptions C17_readonly_step.
