(* C10 — No operation leaks a lock; no interleaving deadlocks.  Property theorems only. *)
From Coq Require Import List Bool Arith ZArith.
From SC Require Import Model.Conc Proofs.ConcFaults.
Import ListNotations.

(* the finite check `no_leak` decides the property for EVERY assignment of faults to the points where an
   operation can raise (unparsable file, rejected value, failing body, I/O error in the save, failing flush)
   and every initial lock state: after the operation every lock count is what it was before *)
Theorem C10_no_leak_sound : forall p, no_leak p = true ->
  forall faults h l, snd (fst (sexec p faults h)) l = h l.
Proof. exact no_leak_sound. Qed.
Print Assumptions C10_no_leak_sound.

(* it holds for the program of every operation kind of the library, in every flavor and variant *)
Theorem C10_ops_balanced : forallb no_leak all_progs = true.
Proof. exact table_no_leak. Qed.
Print Assumptions C10_ops_balanced.

(* every acquisition in every operation, under every fault assignment, is re-entrant or of a lock ranked
   above everything held (buffer lock < collection lock < class lock) *)
Theorem C10_ops_ordered : forallb respects_order all_progs = true.
Proof. exact table_respects_order. Qed.
Print Assumptions C10_ops_ordered.

Theorem C10_order_sound : forall p, respects_order p = true ->
  forall faults, order_ok_events (snd (sexec p faults held0)) held0 = true.
Proof. exact respects_order_sound. Qed.
Print Assumptions C10_order_sound.

Theorem C10_order_at_acquire : forall pre l post h0,
  order_ok_events (pre ++ EAcq l :: post) h0 = true ->
  let h := fold_left (fun h e => match e with EAcq m => held_add h m 1 | ERel m => held_add h m (-1) | _ => h end) pre h0 in
  (h l <= 0)%Z -> forall m, (0 < h m)%Z -> lock_rank m < lock_rank l.
Proof. exact order_ok_at_acquire. Qed.
Print Assumptions C10_order_at_acquire.

(* with a strict lock order no configuration has a wait-for cycle: no interleaving deadlocks *)
Theorem C10_ordered_no_deadlock : forall c, ordered_conf c -> ~ wait_cycle c.
Proof. exact ordered_no_deadlock. Qed.
Print Assumptions C10_ordered_no_deadlock.

(* the lock order matters: the pre-repair clear()/reset() (collection lock, then buffer lock: commit 9c738bb)
   fails the check, so the check is not vacuous *)
Example C10_old_root_clear_violates_order :
  respects_order (SSeq (SAcq LColl) (SFinally (SSeq (SAct T_BODY) (with_lock LBuf (SAct T_BUFSAVE))) (SRel LColl))) = false.
Proof. reflexivity. Qed.

(* and a leaking __enter__ (lock taken, then a load that raises outside any try: commit 0945e05) fails no_leak *)
Example C10_old_enter_leaks :
  no_leak (SSeq (SAcq LColl) (SSeq (SAct T_LOAD) (SFinally (SAct T_BODY) (SFinally (SAct T_SAVE) (SRel LColl))))) = false.
Proof. reflexivity. Qed.

(* SOURCE TIE.  Gen/Contexts.v is regenerated from /repo's source (Python `ast`) on every run: `_LoadAndSave` and
   `_BufferedLoadAndSave` translated statement by statement into programs with two holes (load, save).  The enter and exit
   programs that every theorem above is about ARE those translations - syntactic equality, for every flavor, variant and
   load flag.  A dropped try/finally, a conditional release or a reordered acquire in the source breaks these. *)
From SC Require Import Model.Ctx Gen.Contexts.
Theorem C10_enter_programs_are_the_source : forall fl v load,
  p_enter fl v load = match fl with
                      | FUnbuf => gen_ls_enter (p_load fl v) (p_save fl) load
                      | _ => gen_bls_enter (p_load fl v) (p_save fl) load
                      end.
Proof. exact gen_enter_is_model. Qed.
Print Assumptions C10_enter_programs_are_the_source.
Theorem C10_exit_programs_are_the_source : forall fl,
  p_exit fl = match fl with
              | FUnbuf => gen_ls_exit SSkip (p_save fl) true
              | _ => gen_bls_exit SSkip (p_save fl) true
              end.
Proof. exact gen_exit_is_model. Qed.
Print Assumptions C10_exit_programs_are_the_source.
